#!/bin/bash
# run_seeded.sh <PROP> <name> [tier] [worktree] : (if a worktree is given: copies the verified seeded change from it into /verif/seeded/<name>/),
# applies it to /repo, runs the property's check, restores /repo, and records the outcome in meta.json.
P=$1; NAME=$2; TIER=${3:-quick}; WT=${4:-}
D=/verif/seeded/$NAME
mkdir -p $D
if [ -n "$WT" ] && [ -d "$WT" ]; then
  (cd $WT && git diff -- src) > $D/patch.diff
  cp $WT/harness/tests/demo_*.rs $D/ 2>/dev/null
  cp $WT/_out/notes.md $D/notes.md 2>/dev/null
fi
[ -s $D/patch.diff ] || { echo "no patch"; exit 2; }
cd /verif
git -C /repo apply $D/patch.diff || { echo "patch does not apply"; exit 2; }
S=$(date +%s)
OUT=$(VERIF_EVIDENCE_DIR=/tmp/seeded-evidence VERIF_REPLAY_DIR=/tmp/seeded-replays ./check $P --tier $TIER 2>&1); RC=$?
E=$(date +%s)
git -C /repo checkout -- .
echo "$OUT" | grep -E "^violation in run|^minimised|^VIOLATION|^note:|^KNOWN|^C[0-9]+:" | cut -c1-400
echo "rc=$RC  $((E-S))s"
echo "$OUT" | grep -E "^violation in run|^minimised|^VIOLATION|^note:" | cut -c1-600 > $D/check_output.txt
echo "rc=$RC tier=$TIER seconds=$((E-S))" >> $D/check_output.txt
rm -rf /tmp/seeded-replays /tmp/seeded-evidence
