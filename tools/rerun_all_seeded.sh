#!/bin/bash
# re-runs the quick check of its own property against every seeded change (applies each patch to /repo, restores it)
# and writes /verif/seeded/SUMMARY.md. ~40 min. /repo must be clean; nothing else may touch /repo meanwhile.
cd /verif
[ -z "$(git -C /repo status --short)" ] || { echo "/repo not clean"; exit 2; }
OUT=/verif/seeded/SUMMARY.md
echo "| seeded change | property | quick check of that property | seconds |" > $OUT.tmp
echo "|---|---|---|---|" >> $OUT.tmp
for d in seeded/*/; do
  name=$(basename $d)
  prop=$(python3 -c "import json;print(json.load(open('$d/meta.json'))['property'])")
  res=$(tools/run_seeded.sh $prop $name quick 2>&1 | tail -1)
  rc=$(echo "$res" | sed -n 's/.*rc=\([0-9]*\).*/\1/p'); secs=$(echo "$res" | sed -n 's/.* \([0-9]*\)s$/\1/p')
  v="reported"; [ "$rc" = "0" ] && v="quiet"; [ "$rc" = "2" ] && v="harness error"
  echo "| $name | $prop | $v | $secs |" >> $OUT.tmp
  echo "$name $prop rc=$rc ${secs}s"
done
mv $OUT.tmp $OUT
git -C /repo checkout -- .
./check --build-only
