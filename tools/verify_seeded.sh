#!/bin/bash
# verify_seeded.sh <PROP> [worktree] : confirms a sub-agent's seeded change in its scratch worktree:
#  (1) with the change the existing suite passes (the demo excluded), (2) the demo fails with the change,
#  (3) the demo passes without it. Prints a JSON summary line.
P=$1; WT=${2:-/tmp/wt-$P}
cd $WT || exit 2
export CARGO_NET_OFFLINE=true
DEMO=$(ls harness/tests/demo_*.rs 2>/dev/null | head -1)
DEMONAME=$(basename "$DEMO" .rs)
git diff -- src > /tmp/seeded-$P.diff
[ -s /tmp/seeded-$P.diff ] || { echo "no source change in $WT"; exit 2; }
# (1) existing suite with the change, demo moved away
mv "$DEMO" /tmp/$DEMONAME.rs.hold
T1=$(cargo test --workspace --no-fail-fast --offline 2>&1 | grep -E "^test result" | awk '{p+=$4; f+=$6} END {print p" "f}')
mv /tmp/$DEMONAME.rs.hold "$DEMO"
# (2) demo with the change
cargo test --offline -p harness --test $DEMONAME >/tmp/demo-with.$P.log 2>&1; RC_WITH=$?
# (3) demo without the change
git checkout -- src
cargo test --offline -p harness --test $DEMONAME >/tmp/demo-without.$P.log 2>&1; RC_WITHOUT=$?
git apply /tmp/seeded-$P.diff
echo "{\"property\":\"$P\",\"suite_passed_failed_with_change\":\"$T1\",\"demo_rc_with_change\":$RC_WITH,\"demo_rc_without_change\":$RC_WITHOUT,\"demo\":\"$DEMONAME\"}"
