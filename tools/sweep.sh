#!/bin/bash
# background sweep: triage every profile with many runs and a given seed; prints violation classes
SEED=${1:-1}; RUNS=${2:-200000}
cd /verif && ./check --build-only || exit 2
for p in C01 C02 C04 C08 C09 C10 C11 C13 C14 C15 C16 C17 C20; do
  echo "== $p seed $SEED"
  /verif/target/release/raftsim triage --profile $p --runs $RUNS --seed $SEED | cut -c1-500
done
