#!/bin/bash
# background sweep (for `vp run`): builds its own copy of the simulator from the snapshot it runs in,
# then triages every profile with many runs and a given seed; prints violation classes
SEED=${1:-1}; RUNS=${2:-200000}
HERE=$(cd "$(dirname "$0")/.." && pwd)
cd "$HERE/sim" || exit 2
export CARGO_NET_OFFLINE=true
CARGO_TARGET_DIR="$HERE/target-sweep" cargo build --release --offline >/dev/null 2>&1 || { echo build failed; exit 2; }
BIN="$HERE/target-sweep/release/raftsim"
for p in C01 C02 C04 C08 C09 C10 C11 C13 C14 C15 C16 C17 C20; do
  echo "== $p seed $SEED"
  "$BIN" triage --profile $p --runs $RUNS --seed $SEED | cut -c1-500
done
rm -rf "$HERE/target-sweep"
