#!/usr/bin/env python3
"""write_meta.py <PROP> <name> <verify-json> <what> <needs> [result]  -- writes /verif/seeded/<name>/meta.json"""
import json, sys, os, glob
prop, name, vj, what, needs = sys.argv[1:6]
result = sys.argv[6] if len(sys.argv) > 6 else None
d = f'/verif/seeded/{name}'
v = json.loads(vj)
p, f = v['suite_passed_failed_with_change'].split()
out = [l.rstrip('\n') for l in open(f'{d}/check_output.txt')] if os.path.exists(f'{d}/check_output.txt') else []
m = {
 "property": prop, "what": what, "needs_to_manifest": needs,
 "produced_by": "independent sub-agent (third round: told which ideas were already used, nothing else) given only the property text and a scratch worktree",
 "confirmed": {
  "how": "tools/verify_seeded.sh in the scratch worktree: full existing suite with the change (demo moved away), demo with the change, demo without the change",
  "existing_suite_with_change": f"{p} passed, {f} failed (254 tests + doc tests)",
  "demo_with_change": "fails" if v['demo_rc_with_change'] != 0 else "PASSES (not a valid demonstration)",
  "demo_without_change": "passes" if v['demo_rc_without_change'] == 0 else "FAILS (not a valid demonstration)",
  "demo_file": [os.path.basename(x) for x in glob.glob(f'{d}/demo_*.rs')],
 },
 "check_run": {"cmd": f"git -C /repo apply /verif/seeded/{name}/patch.diff; ./check {prop} --tier quick; git -C /repo checkout -- .", "output": out},
}
if result: m["result"] = result
json.dump(m, open(f'{d}/meta.json', 'w'), indent=1)
print("wrote", f'{d}/meta.json')
