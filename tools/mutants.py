#!/usr/bin/env python3
"""Own sensitivity mutants (M-xx of DESIGN.md section 11): each is applied to /repo, the property's
check must report a VIOLATION, then /repo is restored. Usage: mutants.py [ids...]"""
import subprocess, sys, json, os, time

M = [
 ("M-01", "C01", "src/raft_log.rs", "if max_index > self.committed && self.term(max_index).is_ok_and(|t| t == term) {", "if max_index > self.committed && self.term(max_index).is_ok() {", "commit counts replicas of old-term entries (Figure 8)"),
 ("M-02", "C02", "src/raft.rs", "let can_vote = (self.vote == m.from) ||", "let can_vote = (self.vote == m.from) || (m.get_msg_type() == MessageType::MsgRequestVote && self.leader_id == INVALID_ID) ||", "grants a second vote in the same term"),
 ("M-03", "C03", "src/raft_log.rs", "term > self.last_term() || (term == self.last_term() && last_index >= self.last_index())", "term > self.last_term() || last_index >= self.last_index()", "is_up_to_date accepts a longer log with an older last term"),
 ("M-04", "C04", "src/raft.rs", "        self.raft_log.append(es);\n\n        // Not update self's pr.matched until on_persist_entries\n        true", "        self.raft_log.append(es);\n        let (id, last) = (self.id, self.raft_log.last_index());\n        if let Some(pr) = self.mut_prs().get_mut(id) { pr.maybe_update(last); }\n        true", "leader counts its own unpersisted entries"),
 ("M-05", "C05", "src/raft_log.rs", "            if !self.match_term(e.index, e.term) {\n                if e.index <= self.last_index() {", "            if e.index > self.last_index() {\n                if e.index <= self.last_index() {", "find_conflict never detects a term conflict"),
 ("M-06", "C06", "src/raw_node.rs", "            raft.state != StateRole::Leader || self.hs_change_number > self.persisted_number;", "            raft.state == StateRole::Candidate || self.hs_change_number > self.persisted_number;", "a follower's acknowledgements escape before its entries are persisted"),
 ("M-07", "C07", "src/raft_log.rs", "        std::cmp::min(\n            self.committed,\n            self.persisted + self.max_apply_unpersisted_log_limit,\n        )", "        self.committed", "committed entries handed out before they are persisted"),
 ("M-08", "C08", "src/raft.rs", "            Some(acks) if self.prs.has_quorum(acks) => {}", "            Some(acks) if acks.len() >= 2 || self.prs.has_quorum(acks) => {}", "read index served after the first heartbeat ack"),
 ("M-09", "C09", "src/raft.rs", "                    let reason = if self.has_pending_conf() {", "                    let reason = if false {", "second membership change accepted while one is pending"),
 ("M-10", "C10", "src/raft.rs", "        pr.recent_active = true;\n        pr.resume();\n", "        pr.recent_active = true;\n", "heartbeat response no longer resumes a paused probe"),
 ("M-11", "C11", "src/util.rs", "    (total / 2) + 1", "    (total + 1) / 2", "majority wrong for even sizes"),
 ("M-12", "C12", "src/confchange/changer.rs", "        cfg.learners.extend(cfg.learners_next.drain());\n", "        cfg.learners_next.clear();\n", "leave_joint forgets the staged learners"),
 ("M-13", "C13", "src/tracker/progress.rs", "            ProgressState::Replicate => self.ins.full(),", "            ProgressState::Replicate => false,", "replicating progress is never paused by a full window"),
 ("M-14", "C14", "src/raft_log.rs", "    pub fn match_term(&self, idx: u64, term: u64) -> bool {\n        self.term(idx).map(|t| t == term).unwrap_or(false)", "    pub fn match_term(&self, idx: u64, term: u64) -> bool {\n        self.term(idx).map(|t| t == term || (idx == self.unstable.offset && t != 0)).unwrap_or(false)", "match_term wrong exactly at the unstable offset"),
 ("M-15", "C15", "src/raft.rs", "        if snap.get_metadata().index < self.raft_log.committed {\n            return false;\n        }", "        if snap.get_metadata().index < self.raft_log.applied {\n            return false;\n        }", "restore accepts a snapshot behind the commit index"),
 ("M-16", "C16", "src/raft.rs", "                if !force && in_lease {", "                if !force && in_lease && m.get_msg_type() == MessageType::MsgRequestVote {", "pre-vote requests are not ignored inside the lease"),
 ("M-17", "C17", "src/raft.rs", "        if pr.matched == self.r.raft_log.last_index() {\n            self.send_timeout_now(lead_transferee);", "        if pr.matched >= self.r.raft_log.committed {\n            self.send_timeout_now(lead_transferee);", "TimeoutNow sent to a target that only has the committed prefix"),
 ("M-18", "C18", "src/tracker/inflights.rs", "            idx += 1;\n            if idx >= self.cap {\n                idx -= self.cap;\n            }\n\n            i += 1;", "            idx += 1;\n            if idx > self.cap {\n                idx -= self.cap;\n            }\n\n            i += 1;", "free_to wraps one slot late"),
 ("M-19", "C19", "src/storage.rs", "        Ok(core.entries[(idx - offset) as usize].term)", "        Ok(core.entries[((idx - offset) as usize + 1).min(core.entries.len() - 1)].term)", "MemStorage::term off by one"),
 ("M-20", "C20", "src/raw_node.rs", "        if is_local_msg(m.get_msg_type()) {\n            return Err(Error::StepLocalMsg);\n        }", "        if is_local_msg(m.get_msg_type()) && m.get_msg_type() != MessageType::MsgUnreachable {\n            return Err(Error::StepLocalMsg);\n        }", "MsgUnreachable from the network is accepted"),
]

ALT = {'M-13': ['C20', 'C18']}

def sh(cmd, **kw):
    return subprocess.run(cmd, shell=True, capture_output=True, text=True, **kw)

def main():
    want = set(sys.argv[1:])
    results = []
    for (mid, prop, f, old, new, desc) in M:
        if want and mid not in want and prop not in want:
            continue
        p = os.path.join('/repo', f)
        s = open(p).read()
        if old not in s:
            print(mid, 'PATTERN NOT FOUND'); continue
        open(p, 'w').write(s.replace(old, new, 1))
        try:
            t0 = time.time()
            r = sh(f'cd /verif && VERIF_EVIDENCE_DIR=/tmp/mutant-evidence VERIF_REPLAY_DIR=/tmp/mutant-replays ./check {prop} --tier quick')
            dt = time.time() - t0
            line = [l for l in r.stdout.splitlines() if l.startswith('violation in run') or l.startswith('VIOLATION') or l.startswith('minimised')]
            other = [l for l in r.stdout.splitlines() if l.startswith('note:')]
            status = 'DETECTED' if r.returncode == 1 else ('HARNESS-ERR' if r.returncode == 2 else 'MISSED')
            print(f'{mid} {prop} {status} rc={r.returncode} {dt:.0f}s :: {desc}')
            for l in line[:2] + other[:3]:
                print('     ', l[:300])
            if r.returncode == 2:
                print(r.stderr[-600:])
            if status == 'MISSED':
                # which other property's check reports it?
                for alt in ALT.get(mid, []):
                    r2 = sh(f'cd /verif && VERIF_EVIDENCE_DIR=/tmp/mutant-evidence VERIF_REPLAY_DIR=/tmp/mutant-replays ./check {alt} --tier quick')
                    l2 = [l for l in r2.stdout.splitlines() if l.startswith('violation in run')]
                    print(f'      alt {alt}: rc={r2.returncode} {l2[0][:220] if l2 else ""}')
            results.append((mid, prop, status))
        finally:
            sh('git -C /repo checkout -- .')
    sh('rm -rf /tmp/mutant-replays')
    return 0

if __name__ == '__main__':
    sys.exit(main())
