#!/bin/bash
# Determinism proof: every profile, N seeds, run in separate processes with 1 and 16 workers, plus
# trace replay of the first 200 recorded traces; any diff is a release blocker.
N=${1:-2000}
BIN=/verif/target/release/raftsim
cd /verif && ./check --build-only || exit 2
rc=0
for p in C01 C02 C04 C08 C09 C10 C11 C13 C14 C15 C16 C17 C20; do
  $BIN determinism --profile $p --runs $N --threads 16 > /tmp/det.$$.a
  $BIN determinism --profile $p --runs $N --threads 3 > /tmp/det.$$.b
  $BIN determinism --profile $p --runs 200 --threads 16 --replay | tail -1 > /tmp/det.$$.c
  if cmp -s /tmp/det.$$.a /tmp/det.$$.b; then echo "$p: $N seeds identical across processes/worker counts; $(cat /tmp/det.$$.c)"; else echo "$p: DIVERGED"; diff /tmp/det.$$.a /tmp/det.$$.b | head -5; rc=1; fi
done
rm -f /tmp/det.$$.*
exit $rc
