#!/bin/bash
# runs every property's check at the given tier; prints one line per property
TIER=${1:-quick}
cd /verif
for i in $(seq -w 1 20); do
  id=C$i
  s=$(date +%s.%N)
  out=$(./check $id --tier $TIER 2>&1); rc=$?
  e=$(date +%s.%N)
  printf "%s rc=%d %.1fs %s\n" $id $rc $(echo "$e - $s" | bc) "$(echo "$out" | grep -E "^C[0-9]+:|VIOLATION|KNOWN-FINDING|harness|note:" | tr '\n' ' ' | cut -c1-400)"
done
