#!/bin/bash
# background thorough-tier run of every check (for `vp run`): builds its own copy of the simulator once from the
# snapshot it runs in (so later edits of /repo or /verif do not leak in), writes evidence/replays to scratch dirs
SEED=${1:-20260925}
HERE=$(cd "$(dirname "$0")/.." && pwd)
cd "$HERE/sim" || exit 2
export CARGO_NET_OFFLINE=true
CARGO_TARGET_DIR="$HERE/target-thorough" cargo build --release --offline >/dev/null 2>&1 || { echo build failed; exit 2; }
BIN="$HERE/target-thorough/release/raftsim"
cd "$HERE"
for i in $(seq -w 1 20); do
  id=C$i
  s=$(date +%s)
  out=$(VERIF_SEED=$SEED VERIF_EVIDENCE_DIR="$HERE/ev-thorough" VERIF_REPLAY_DIR="$HERE/rp-thorough" "$BIN" check $id --tier thorough 2>&1); rc=$?
  e=$(date +%s)
  printf "%s rc=%d %ds %s\n" $id $rc $((e-s)) "$(echo "$out" | grep -E "^C[0-9]+:|^VIOLATION|^violation in|^minimised|harness" | tr '\n' ' ' | cut -c1-700)"
done
rm -rf "$HERE/target-thorough"
