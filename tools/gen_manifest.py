#!/usr/bin/env python3
"""Regenerates /verif/MANIFEST.json from the table below (keeps the manifest valid at all times)."""
import json, subprocess

HOOK_COMMITS = ["9c7586e"]

TECH = "deterministic simulation with fault injection: seeded search over schedules and fault sequences of a whole simulated cluster (real RawNode/Raft/RaftLog/MemStorage code; simulated transport, clock, disk, application), invariants checked after every library call and over the recorded history; failures minimised (ddmin) and replayed from an action trace"

CLAIMED = {
 "C01": ("C01.commit_agreement: first-writer-wins ghost committed log CL compared at every commit-index advance, every committed_entries hand-off, every snapshot install and after every restart; application state hash chain compared with the committed prefix", "7 C01"),
 "C02": ("C02.one_leader_per_term: per call, a node in role Leader must be the only leader ever seen for its term (terms that were never durable nor told to anybody are forgotten at crash)", "7 C02"),
 "C03": ("C03.leader_has_committed (every leader, incl. stale ones, holds every entry committed under an earlier term) and C03.grant_up_to_date (every granted (pre-)vote went to a candidate whose last (term,index) >= the voter's)", "7 C03"),
 "C04": ("C04.leader_commit_quorum_durable (commit advance only to an own-term entry held in the durable disk image of a majority of each voter set) and C04.follower_commit_bounded", "7 C04"),
 "C05": ("C05.log_matching (global registry (index,term)->(entry, previous term) must stay a function), C05.leader_append_only, C05.committed_prefix_immutable; pairwise full re-check every 256 actions", "7 C05"),
 "C06": ("C06.release_before_durable (every message released before its Ready is durable carries no undurable promise), C06.term_monotone, C06.one_vote_per_term_ever, C06.restart_not_behind", "7 C06"),
 "C07": ("C07.handoff_exact, C07.handoff_persisted_only, C07.persist_handoff, C07.must_sync, C07.has_ready_iff, LightReady.commit_index", "7 C07"),
 "C08": ("C08.read_index_bound: every ReadState index >= the largest commit index any node had reached when the read was issued, returned only on the issuing node (Safe mode)", "7 C08"),
 "C19": ("C19.differential: the real MemStorage of every simulated disk is compared with an independent sequence model after every mutation the simulated application performs", "7 C19"),
 "C20": ("C20.no_panic (every library call under catch_unwind, debug assertions and overflow checks on) and C20.local_and_stranger_rejected", "7 C20"),
}

NOT_YET = {}

def main():
    props = [json.loads(l) for l in open('/verif/properties.jsonl')]
    checks = []
    na = []
    for p in props:
        pid = p['id']
        if pid in CLAIMED:
            text, ref = CLAIMED[pid]
            checks.append({
                "property_id": pid,
                "quick_cmd": f"./check {pid} --tier quick",
                "thorough_cmd": f"./check {pid} --tier thorough",
                "evidence_file": f"/verif/evidence/{pid}.json",
                "replay_cmd_template": f"./check {pid} --replay {{path}}",
                "engine": "raftsim",
                "level_claimed": {
                    "category": "exploration",
                    "text": "Seeded exploration: no violation of the oracle(s) in the simulated executions explored (evidence, not proof). Oracles: " + text,
                    "design_ref": "DESIGN.md section " + ref,
                },
                "level_note": "Trusted base: the simulator (World/Driver/SimDisk/SimApp), the reference models, 64-bit entry digests; assumes fsync does not lie, durable bytes are not corrupted, messages are delivered unmodified, and the application follows the documented Ready/advance contract. Sampling only: executions outside the explored seeds/profiles are not covered.",
                "technique": TECH,
            })
        else:
            na.append({"property_id": pid, "reason": NOT_YET.get(pid, "no check registered in this revision of /verif (monitor under construction); not claimed")})
    m = {
        "version": 1,
        "setup_cmd": "./check --build-only",
        "hooks": {
            "guard": "--cfg tikv_raft_rs_verif",
            "enable": "RUSTFLAGS=\"--cfg tikv_raft_rs_verif\" (set in /verif/sim/.cargo/config.toml); the sim crate depends on raft/raft-proto by path /repo, so every check rebuilds from /repo's working tree",
            "baseline_off_cmd": "cd /repo && cargo test --workspace --no-fail-fast --offline",
            "source_commits": HOOK_COMMITS,
            "add_only": True,
        },
        "engines": [{
            "name": "raftsim",
            "path": "/verif/sim",
            "serves_properties": sorted(CLAIMED.keys()),
            "kind_free_text": "single-binary deterministic simulator (one thread per run, 16 independent runs in parallel), seeded PRNG driver, action-trace replay, ddmin minimiser",
        }],
        "checks": checks,
        "not_applicable": na,
        "notes": "All checks share one engine and keep every monitor on (stop-at-first rule); only firings of the command's own property decide its exit code. known_findings.json lists fixed/open findings. See DESIGN.md.",
    }
    json.dump(m, open('/verif/MANIFEST.json', 'w'), indent=1)
    print("claimed", len(checks), "not_applicable", len(na))

if __name__ == '__main__':
    main()
