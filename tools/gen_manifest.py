#!/usr/bin/env python3
"""Regenerates /verif/MANIFEST.json from the table below (keeps the manifest valid at all times)."""
import json, subprocess

HOOK_COMMITS = ["9c7586e"]

TECH = "deterministic simulation with fault injection: seeded search over schedules and fault sequences of a whole simulated cluster (real RawNode/Raft/RaftLog/MemStorage code; simulated transport, clock, disk, application), invariants checked after every library call and over the recorded history; failures minimised (ddmin) and replayed from an action trace"

CLAIMED = {
 "C01": ("C01.commit_agreement: first-writer-wins ghost committed log CL compared at every commit-index advance, every committed_entries hand-off, every snapshot install and after every restart; application state hash chain compared with the committed prefix", "7 C01"),
 "C02": ("C02.one_leader_per_term: per call, a node in role Leader must be the only leader ever seen for its term (terms that were never durable nor told to anybody are forgotten at crash)", "7 C02"),
 "C03": ("C03.leader_has_committed (every leader, incl. stale ones, holds every entry committed under an earlier term) and C03.grant_up_to_date (every granted (pre-)vote went to a candidate whose last (term,index) >= the voter's)", "7 C03"),
 "C04": ("C04.leader_commit_quorum_durable (commit advance only to an own-term entry held in the durable disk image of a majority of each voter set) and C04.follower_commit_bounded", "7 C04"),
 "C05": ("C05.log_matching (global registry (index,term)->(entry, previous term) must stay a function), C05.leader_append_only, C05.committed_prefix_immutable; pairwise full re-check every 256 actions", "7 C05"),
 "C06": ("C06.release_before_durable (every message released before its Ready is durable carries no undurable promise), C06.term_monotone, C06.one_vote_per_term_ever, C06.restart_not_behind", "7 C06"),
 "C07": ("C07.handoff_exact, C07.handoff_persisted_only, C07.persist_handoff (incl. the persist-once ghost: entries handed out for persistence exactly once), C07.must_sync, C07.has_ready_iff, LightReady.commit_index; scripted persistence-notice races", "7 C07"),
 "C08": ("C08.read_index_bound: every ReadState index >= the largest commit index any node had reached when the read was issued, returned only on the issuing node (Safe mode)", "7 C08"),
 "C19": ("C19.differential: the real MemStorage of every simulated disk is compared with an independent sequence model after every mutation the simulated application performs, and after every step of seeded what-if sequences of legal mutations applied to a scratch copy of a reached storage state (StorageExercise)", "7 C19"),
 "C20": ("C20.no_panic (every library call under catch_unwind, debug assertions and overflow checks on) and C20.local_and_stranger_rejected", "7 C20"),
}


CLAIMED.update({
 "C09": ("C09.one_at_a_time, C09.neutralised_not_dropped, C09.no_campaign_with_unapplied_conf, C09.config_is_function_of_applied (cross-node equality and equality with the reference model R folded over the committed log), C09.only_voters_campaign", "7 C09"),
 "C10": ("C10.converges: after an arbitrary fault prefix the World itself runs a fair, fault-free suffix (operator heals, every member ticks, all messages delivered, prompt fsync/apply, snapshot reports delivered, a client keeps proposing); within 10 x 30 election timeouts exactly one leader among members, equal logs/commit, a fresh proposal applied everywhere; premise (running majority of each voter set) checked", "7 C10"),
 "C11": ("in situ: on every tracker state the simulated clusters reach, maximal_committed_index / tally_votes / has_quorum equal independent reference computations (plain and joint; group commit: <= quorum index always, exact when every voter has a group)", "7 C11"),
 "C12": ("in situ at every apply_conf_change, restart and snapshot install: C12.invariants, simple_changes_one_voter, error_is_atomic, matches_reference (model R), restore_roundtrip, quorum_overlap (brute force over subsets)", "7 C12"),
 "C13": ("C13.append_well_formed (every pending/emitted MsgAppend of the term vs the leader's log, heartbeat and snapshot commit bounds), size_limit, window (incl. requested-capacity ghost), probe_one (incl. probe-outstanding ghost), snapshot_silence (incl. snapshot-outstanding ghost), uncommitted_bound (ghost accounting); scripted scenario elected_before_persistence_is_reported", "7 C13"),
 "C14": ("C14.logical_log (first/last index, term(i) over the whole window, match_term, is_up_to_date, find_conflict_by_term on probes from the other nodes' logs, size-limited slices vs the sequence model) and C14.pointers (incl. persisted index vs stable storage terms), after every storage mutation and per call", "7 C14"),
 "C15": ("C15.install_guard, install_effect (state hash, configuration, progress map = members, boundary term, commit, acknowledged entries not discarded), fast_forward, send_only_if_needed, resume_after_report", "7 C15"),
 "C16": ("C16.prevote_request_is_readonly, C16.no_term_inflation, and the lock-step scenario C16.stable_majority_undisturbed (majority ticking in lock-step with all internal traffic delivered each tick, adversarial minority)", "7 C16"),
 "C17": ("C17.timeout_now_only_when_caught_up, no_proposals_while_transferring (incl. pending_until_resolved ghost), abort_after_timeout, abort_when_removed, bad_target_ignored, completes_when_healthy (conditional, in the fair suffix)", "7 C17"),
 "C18": ("in situ: the in-flight window of every (leader, follower) pair after every call, read through the cfg-guarded view: strictly increasing, within capacity, full() consistent, FIFO transition (old minus a prefix plus larger new), pending reduced capacity in force once drained", "7 C18"),
})

NOT_YET = {}

def main():
    props = [json.loads(l) for l in open('/verif/properties.jsonl')]
    checks = []
    na = []
    for p in props:
        pid = p['id']
        if pid in CLAIMED:
            text, ref = CLAIMED[pid]
            checks.append({
                "property_id": pid,
                "quick_cmd": f"./check {pid} --tier quick",
                "thorough_cmd": f"./check {pid} --tier thorough",
                "evidence_file": f"/verif/evidence/{pid}.json",
                "replay_cmd_template": f"./check {pid} --replay {{path}}",
                "engine": "raftsim",
                "level_claimed": {
                    "category": "exploration",
                    "text": "Seeded exploration: no violation of the oracle(s) in the simulated executions explored (evidence, not proof). Oracles: " + text,
                    "design_ref": "DESIGN.md section " + ref,
                },
                "level_note": "Trusted base: the simulator (World/Driver/SimDisk/SimApp), the reference models, 64-bit entry digests; assumes fsync does not lie, durable bytes are not corrupted, messages are delivered unmodified, and the application follows the documented Ready/advance contract. Sampling only: executions outside the explored seeds/profiles are not covered.",
                "technique": TECH,
            })
        else:
            na.append({"property_id": pid, "reason": NOT_YET.get(pid, "no check registered in this revision of /verif (monitor under construction); not claimed")})
    m = {
        "version": 1,
        "setup_cmd": "./check --build-only",
        "hooks": {
            "guard": "--cfg tikv_raft_rs_verif",
            "enable": "RUSTFLAGS=\"--cfg tikv_raft_rs_verif\" (set in /verif/sim/.cargo/config.toml); the sim crate depends on raft/raft-proto by path /repo, so every check rebuilds from /repo's working tree",
            "baseline_off_cmd": "cd /repo && cargo test --workspace --no-fail-fast --offline",
            "source_commits": HOOK_COMMITS,
            "add_only": True,
        },
        "engines": [{
            "name": "raftsim",
            "path": "/verif/sim",
            "serves_properties": sorted(CLAIMED.keys()),
            "kind_free_text": "single-binary deterministic simulator (one thread per run, 16 independent runs in parallel), seeded PRNG driver, action-trace replay, ddmin minimiser",
        }],
        "checks": checks,
        "not_applicable": na,
        "notes": "All checks share one engine and keep every monitor on; a check runs in focus mode for its own property: firings of other properties' monitors are counted in the evidence and do not end the run (library panics and harness self-checks do), only firings of the command's own property decide its exit code. Besides the seeded random profile, a check replays the stored reproductions of the open known findings of its property and runs the scripted (PRNG-free) scenarios registered for it. known_findings.json lists fixed/open findings. See DESIGN.md section 13.",
    }
    json.dump(m, open('/verif/MANIFEST.json', 'w'), indent=1)
    print("claimed", len(checks), "not_applicable", len(na))

if __name__ == '__main__':
    main()
