//! The World: a deterministic state machine whose only mutator is `apply(&Action)`.
//! It owns the real `RawNode`s, the simulated disks, the network bag, the simulated
//! applications and the ghost state; every library call goes through `call()` which wraps it
//! in catch_unwind and runs the monitors on the observable state before/after.

use std::cell::RefCell;
use std::collections::{BTreeMap, BTreeSet, VecDeque};
use std::panic::{catch_unwind, AssertUnwindSafe};

use protobuf::Message as PbMessage;
use raft::eraftpb::{
    ConfChange, ConfChangeSingle, ConfChangeTransition, ConfChangeType, ConfChangeV2, ConfState,
    Entry, EntryType, HardState, Message, MessageType, Snapshot,
};
use raft::{Config, ProgressState, RawNode, ReadOnlyOption, SnapshotStatus, StateRole};

use crate::action::*;
use crate::disk::{AppState, SimDisk, SimStorage, WriteItem};
use crate::ghost::Ghost;
use crate::prng::{mix, mix3, Digest};

#[derive(Clone, Debug)]
pub struct Violation {
    pub prop: &'static str,
    pub check: &'static str,
    pub node: NodeId,
    pub step: u64,
    pub detail: String,
    /// canonical description of *what* failed (used to match known findings)
    pub sig: String,
}

pub type VResult<T> = Result<T, Violation>;

#[derive(Clone, Debug, PartialEq, Eq, Default, PartialOrd, Ord)]
pub struct ConfShape {
    pub voters: Vec<u64>,
    pub outgoing: Vec<u64>,
    pub learners: Vec<u64>,
    pub learners_next: Vec<u64>,
    pub auto_leave: bool,
}

impl ConfShape {
    pub fn from_cs(cs: &ConfState) -> ConfShape {
        let s = |v: &Vec<u64>| {
            let mut v = v.clone();
            v.sort_unstable();
            v
        };
        ConfShape {
            voters: s(&cs.voters),
            outgoing: s(&cs.voters_outgoing),
            learners: s(&cs.learners),
            learners_next: s(&cs.learners_next),
            auto_leave: cs.auto_leave,
        }
    }
    pub fn is_voter(&self, id: u64) -> bool {
        self.voters.contains(&id) || self.outgoing.contains(&id)
    }
    pub fn is_member(&self, id: u64) -> bool {
        self.is_voter(id) || self.learners.contains(&id) || self.learners_next.contains(&id)
    }
    pub fn joint(&self) -> bool {
        !self.outgoing.is_empty()
    }
    pub fn members(&self) -> BTreeSet<u64> {
        let mut s = BTreeSet::new();
        for v in [&self.voters, &self.outgoing, &self.learners, &self.learners_next] {
            s.extend(v.iter().cloned());
        }
        s
    }
}

#[derive(Clone, Debug, PartialEq)]
pub struct PrObs {
    pub id: u64,
    pub state: ProgressState,
    pub matched: u64,
    pub next_idx: u64,
    pub paused: bool,
    pub is_paused: bool,
    pub pending_snapshot: u64,
    pub pending_request_snapshot: u64,
    pub recent_active: bool,
    pub win: Vec<u64>,
    pub cap: usize,
    pub pending_cap: Option<usize>,
    pub full: bool,
    pub group: u64,
}

/// Observable state of one node, captured after every library call.
#[derive(Clone, Debug, Default)]
pub struct Obs {
    pub term: u64,
    pub vote: u64,
    pub role: StateRole,
    pub leader_id: u64,
    pub commit: u64,
    pub applied: u64,
    pub persisted: u64,
    pub first_index: u64,
    pub last_index: u64,
    pub last_term: u64,
    pub unst_offset: u64,
    pub unst_len: usize,
    pub snap_index: u64,
    pub snap_term: u64,
    pub election_elapsed: usize,
    pub transferee: Option<u64>,
    pub pending_conf_index: u64,
    pub uncommitted_size: usize,
    pub msgs_len: usize,
    pub read_states_len: usize,
    pub pending_request_snapshot: u64,
    pub promotable: bool,
    pub conf: ConfShape,
    pub prs_keys: Vec<u64>,
    pub prs: Vec<PrObs>,
    pub group_commit: bool,
    pub max_apply_unpersisted: u64,
}

impl Obs {
    pub fn pr(&self, id: u64) -> Option<&PrObs> {
        self.prs.iter().find(|p| p.id == id)
    }
}

pub fn entry_digest(e: &Entry) -> u64 {
    Digest::new()
        .u64(e.get_entry_type() as u64)
        .bytes(e.get_data())
        .bytes(e.get_context())
        .finish()
}

pub fn is_conf_entry(e: &Entry) -> bool {
    matches!(e.get_entry_type(), EntryType::EntryConfChange | EntryType::EntryConfChangeV2)
}

/// Shadow of a node's unstable entries: (offset, [(term, digest, is_conf)]).
#[derive(Clone, Debug, Default)]
pub struct UnstShadow {
    pub offset: u64,
    pub ents: Vec<(u64, u64, bool)>,
    /// payload length of each unstable entry (C13 uncommitted-size accounting)
    pub lens: Vec<usize>,
}

pub struct Outstanding {
    pub number: u64,
    pub msgs: Vec<Message>,
    /// absolute write-queue position that must be durable before release
    pub wq_end: u64,
}

pub struct Node {
    pub id: NodeId,
    pub cfg: NodeCfg,
    pub raw: Option<RawNode<SimStorage>>,
    pub disk: SimDisk,
    pub started: bool,
    pub decommissioned: bool,
    pub incarnation: u32,
    // ---- volatile application state
    pub sm: AppState,
    pub apply_q: VecDeque<Entry>,
    pub outstanding: VecDeque<Outstanding>,
    // ---- ghost, per incarnation
    pub obs: Obs,
    pub unst: UnstShadow,
    /// last index handed to the application (committed_entries) or covered by an installed snapshot
    pub handoff: u64,
    /// HardState as last handed out for persistence
    pub hs_handed: HardState,
    /// commit index as last reported through Ready.hs / LightReady.commit_index
    pub commit_handed: u64,
    /// ghost uncommitted-size accounting for C13: (index, payload bytes) appended as leader of `ghost_term`
    pub ghost_uncommitted: VecDeque<(u64, usize)>,
    pub ghost_uncommitted_term: u64,
    // ---- ghost, across incarnations
    pub max_commit_ever: u64,
    pub reloaded_lower_commit: bool,
    /// ghost (as leader): peers in Probe state to which an entry-carrying append is unanswered
    pub probe_outstanding: std::collections::BTreeSet<NodeId>,
    /// ghost (as leader): snapshots handed to the transport about which the transport has not reported yet
    pub snap_handed: BTreeMap<NodeId, u64>,
    /// ghost: (index -> term) of entries handed out for persistence by earlier Readies of this incarnation
    pub persist_handed: BTreeMap<u64, u64>,
    /// ghost: the group-commit switch as the application last set it in this incarnation
    pub want_group_commit: bool,
    pub ticks_as_leader_with_transferee: usize,
    pub transferee_seen: Option<u64>,
    /// ghost: in-flight window capacity last requested per peer (C18: a resize must not get lost)
    pub want_cap: BTreeMap<u64, usize>,
    /// Ready number whose persistence raft has not been told about yet (deferred notification)
    pub pending_notify: Option<u64>,
    /// the individual Ready numbers behind `pending_notify`, oldest first
    pub notify_queue: std::collections::VecDeque<u64>,
    /// ghost (leader side): snapshots sent to a peer and neither reported nor acknowledged yet
    pub snap_outstanding: BTreeMap<u64, u64>,
}

impl Node {
    pub fn running(&self) -> bool {
        self.raw.is_some()
    }
}

pub struct InFlight {
    pub msg: Message,
    pub sender_inc: u32,
}

thread_local! {
    static TIMEOUTS: RefCell<(u64, BTreeMap<u64, u64>)> = RefCell::new((0, BTreeMap::new()));
    static LAST_PANIC: RefCell<Option<String>> = RefCell::new(None);
}

pub fn install_thread_hooks() {
    // silent panic hook that records message + location for C20 reports
    std::panic::set_hook(Box::new(|info| {
        let loc = info
            .location()
            .map(|l| format!("{}:{}", l.file().rsplit('/').next().unwrap_or(l.file()), l.line()))
            .unwrap_or_default();
        let msg = if let Some(s) = info.payload().downcast_ref::<&str>() {
            s.to_string()
        } else if let Some(s) = info.payload().downcast_ref::<String>() {
            s.clone()
        } else {
            "<non-string panic>".to_string()
        };
        LAST_PANIC.with(|p| *p.borrow_mut() = Some(format!("{loc}: {msg}")));
    }));
}

fn install_timeout_source(salt: u64) {
    TIMEOUTS.with(|t| *t.borrow_mut() = (salt, BTreeMap::new()));
    raft::verif::set_election_timeout_source(Some(Box::new(|id, min, max| {
        TIMEOUTS.with(|t| {
            let mut t = t.borrow_mut();
            let salt = t.0;
            let c = t.1.entry(id).or_insert(0);
            *c += 1;
            let h = mix3(salt, id, *c);
            min + (h % (max - min) as u64) as usize
        })
    })));
}

pub fn take_last_panic() -> Option<String> {
    LAST_PANIC.with(|p| p.borrow_mut().take())
}

/// What kind of library call was made (for the monitors).
#[derive(Clone, Debug)]
pub enum CallKind {
    New,
    Tick,
    Step(Box<Message>),
    Propose { id: u64, size: usize },
    ProposeConf { cc: ConfChangeV2, v1: bool },
    ReadIndex { id: u64 },
    Transfer { target: u64 },
    Campaign,
    RequestSnapshot,
    Ping,
    ReportUnreachable { peer: u64 },
    ReportSnapshot { peer: u64, ok: bool },
    Ready,
    Advance,
    AdvanceAppend,
    AdvanceAsync,
    OnPersist { number: u64 },
    ApplyTo { index: u64 },
    ApplyConf { index: u64, cc: ConfChangeV2 },
    Knob(Knob),
    EntriesFetched,
    Bogus(Box<Message>),
}

pub struct CallCtx<'a> {
    pub n: NodeId,
    pub kind: &'a CallKind,
    pub pre: &'a Obs,
    pub post: &'a Obs,
    pub pre_unst: &'a UnstShadow,
    pub emitted: &'a [Message],
    /// Err(description) if the call returned an error
    pub err: Option<String>,
}

pub struct World {
    pub cfg: ClusterCfg,
    pub nodes: BTreeMap<NodeId, Node>,
    pub flights: BTreeMap<MsgKey, InFlight>,
    pub link_seq: BTreeMap<(NodeId, NodeId), u64>,
    pub ghost: Ghost,
    pub step_no: u64,
    /// message keys released by the current action (the driver schedules their fate)
    pub released: Vec<MsgKey>,
    pub stats: BTreeMap<&'static str, u64>,
    pub logger: slog::Logger,
    pub stabilised: bool,
    pub lockstep: Option<crate::monitors::LockstepState>,
    /// abstract trace hash (kinds/nodes/types/roles only)
    pub trace_hash: u64,
    pub state_hashes: fxhash::FxHashSet<u64>,
    /// probe for sampled differential queries (deterministic function of step_no)
    pub verbose: bool,
    /// property in focus (other properties' monitor firings are counted, not fatal)
    pub focus: Option<&'static str>,
    pub suppressed: BTreeMap<&'static str, u64>,
    pub init_violation: Option<Violation>,
}

pub fn new_entry_payload(id: u64, size: u32) -> Vec<u8> {
    let size = size as usize;
    if size == 0 {
        return Vec::new(); // a genuinely empty payload (never refused for size)
    }
    let mut v = Vec::with_capacity(size.max(8));
    v.extend_from_slice(&id.to_le_bytes());
    while v.len() < size {
        v.push((id as u8).wrapping_add(v.len() as u8));
    }
    v
}

pub fn payload_id(data: &[u8]) -> Option<u64> {
    if data.len() >= 8 {
        Some(u64::from_le_bytes(data[..8].try_into().unwrap()))
    } else {
        None
    }
}

pub fn build_cc(v1: bool, transition: u8, changes: &[Change]) -> (Option<ConfChange>, ConfChangeV2) {
    let ty = |t: u8| match t {
        0 => ConfChangeType::AddNode,
        1 => ConfChangeType::RemoveNode,
        _ => ConfChangeType::AddLearnerNode,
    };
    if v1 {
        let mut cc = ConfChange::default();
        if let Some((t, id)) = changes.first() {
            cc.set_change_type(ty(*t));
            cc.node_id = *id;
        }
        let v2 = raft_proto::ConfChangeI::as_v2(&cc).into_owned();
        (Some(cc), v2)
    } else {
        let mut cc = ConfChangeV2::default();
        cc.set_transition(match transition {
            0 => ConfChangeTransition::Auto,
            1 => ConfChangeTransition::Implicit,
            _ => ConfChangeTransition::Explicit,
        });
        let singles: Vec<ConfChangeSingle> = changes
            .iter()
            .map(|(t, id)| raft_proto::new_conf_change_single(*id, ty(*t)))
            .collect();
        cc.set_changes(singles.into());
        (None, cc)
    }
}

pub fn decode_conf_entry(e: &Entry) -> Option<ConfChangeV2> {
    match e.get_entry_type() {
        EntryType::EntryConfChange => {
            let mut cc = ConfChange::default();
            cc.merge_from_bytes(e.get_data()).ok()?;
            Some(raft_proto::ConfChangeI::into_v2(cc))
        }
        EntryType::EntryConfChangeV2 => {
            let mut cc = ConfChangeV2::default();
            cc.merge_from_bytes(e.get_data()).ok()?;
            Some(cc)
        }
        _ => None,
    }
}

pub fn chain_hash(prev: u64, index: u64, term: u64, digest: u64) -> u64 {
    mix3(prev, index, mix(term, digest))
}

impl World {
    pub fn new(cfg: ClusterCfg) -> World {
        install_timeout_source(cfg.timeout_salt);
        let logger = slog::Logger::root(slog::Discard, slog::o!());
        let mut cs = ConfState::default();
        cs.voters = cfg.voters.clone();
        cs.learners = cfg.learners.clone();
        let mut nodes = BTreeMap::new();
        for (id, nc) in &cfg.nodes {
            let disk = SimDisk::new(cs.clone(), cfg.initial_index, cfg.initial_term);
            let sm = disk.durable.app.clone();
            nodes.insert(
                *id,
                Node {
                    id: *id,
                    cfg: nc.clone(),
                    raw: None,
                    disk,
                    started: false,
                    decommissioned: false,
                    incarnation: 0,
                    sm,
                    apply_q: VecDeque::new(),
                    outstanding: VecDeque::new(),
                    obs: Obs::default(),
                    unst: UnstShadow::default(),
                    handoff: 0,
                    hs_handed: HardState::default(),
                    commit_handed: 0,
                    ghost_uncommitted: VecDeque::new(),
                    ghost_uncommitted_term: 0,
                    max_commit_ever: 0,
                    reloaded_lower_commit: false,
                    probe_outstanding: Default::default(),
                    snap_handed: Default::default(),
                    persist_handed: Default::default(),
                    want_group_commit: false,
                    ticks_as_leader_with_transferee: 0,
                    transferee_seen: None,
                    want_cap: BTreeMap::new(),
                    pending_notify: None,
                    notify_queue: Default::default(),
                    snap_outstanding: BTreeMap::new(),
                },
            );
        }
        let ghost = Ghost::new(&cfg, &cs);
        let mut w = World {
            cfg,
            nodes,
            flights: BTreeMap::new(),
            link_seq: BTreeMap::new(),
            ghost,
            step_no: 0,
            released: Vec::new(),
            stats: BTreeMap::new(),
            logger,
            stabilised: false,
            lockstep: None,
            trace_hash: 0,
            state_hashes: Default::default(),
            verbose: false,
            focus: None,
            suppressed: BTreeMap::new(),
            init_violation: None,
        };
        let initial: Vec<NodeId> = w.cfg.voters.iter().chain(w.cfg.learners.iter()).cloned().collect();
        for id in initial {
            if let Err(v) = w.start_node(id) {
                // reported by the first apply() (and by replay) so that it is attributed like any other
                w.init_violation = Some(v);
                break;
            }
        }
        w
    }

    pub fn bump(&mut self, k: &'static str) {
        *self.stats.entry(k).or_insert(0) += 1;
    }
    pub fn bump_by(&mut self, k: &'static str, v: u64) {
        *self.stats.entry(k).or_insert(0) += v;
    }

    pub fn violation(&self, prop: &'static str, check: &'static str, node: NodeId, detail: String, sig: String) -> Violation {
        Violation { prop, check, node, step: self.step_no, detail, sig }
    }

    pub fn running_ids(&self) -> Vec<NodeId> {
        self.nodes.values().filter(|n| n.running()).map(|n| n.id).collect()
    }

    /// The applied index the application passes in `Config`. An application that keeps its
    /// applied index apart from the raft storage can crash after the snapshot reached the
    /// storage and before it recorded the new applied index: it restores its state machine
    /// from the snapshot but still passes the older index (legal: raft hands out nothing at or
    /// below the snapshot anyway). Chosen without a PRNG draw so that stored replays keep
    /// their meaning: every third (incarnation + id) whose state machine sits exactly at the
    /// durable truncation point.
    fn config_applied(node: &Node) -> u64 {
        let t = node.disk.durable.trunc_index;
        if t > 1 && node.sm.applied == t && node.incarnation > 0 && (node.incarnation as u64 + node.id) % 3 == 0 {
            t / 2
        } else {
            node.sm.applied
        }
    }

    fn make_config(node: &Node) -> Config {
        let c = &node.cfg;
        Config {
            id: node.id,
            election_tick: c.election_tick,
            heartbeat_tick: c.heartbeat_tick,
            applied: Self::config_applied(node),
            max_size_per_msg: c.max_size_per_msg,
            max_inflight_msgs: c.max_inflight_msgs,
            check_quorum: c.check_quorum,
            pre_vote: c.pre_vote,
            min_election_tick: c.min_election_tick,
            max_election_tick: c.max_election_tick,
            read_only_option: if c.lease_read && c.check_quorum { ReadOnlyOption::LeaseBased } else { ReadOnlyOption::Safe },
            skip_bcast_commit: c.skip_bcast_commit,
            batch_append: c.batch_append,
            priority: c.priority,
            max_uncommitted_size: c.max_uncommitted_size,
            max_committed_size_per_ready: c.max_committed_size_per_ready,
            max_apply_unpersisted_log_limit: c.max_apply_unpersisted_log_limit,
            disable_proposal_forwarding: c.disable_proposal_forwarding,
        }
    }

    pub fn observe(raw: &RawNode<SimStorage>) -> Obs {
        let r = &raw.raft;
        let log = &r.raft_log;
        let last_index = log.last_index();
        let (snap_index, snap_term) = match log.unstable.snapshot.as_ref() {
            Some(s) => (s.get_metadata().index, s.get_metadata().term),
            None => (0, 0),
        };
        let shape = ConfShape::from_cs(&r.prs().conf().to_conf_state());
        let mut prs_keys: Vec<u64> = r.prs().iter().map(|(id, _)| *id).collect();
        prs_keys.sort_unstable();
        let mut prs = Vec::new();
        if r.state == StateRole::Leader {
            for id in &prs_keys {
                let p = r.prs().get(*id).unwrap();
                let (win, cap, pending_cap) = p.ins.verif_window();
                prs.push(PrObs {
                    id: *id,
                    state: p.state,
                    matched: p.matched,
                    next_idx: p.next_idx,
                    paused: p.paused,
                    is_paused: p.is_paused(),
                    pending_snapshot: p.pending_snapshot,
                    pending_request_snapshot: p.pending_request_snapshot,
                    recent_active: p.recent_active,
                    win,
                    cap,
                    pending_cap,
                    full: p.ins.full(),
                    group: p.commit_group_id,
                });
            }
        }
        Obs {
            term: r.term,
            vote: r.vote,
            role: r.state,
            leader_id: r.leader_id,
            commit: log.committed,
            applied: log.applied,
            persisted: log.persisted,
            first_index: log.first_index(),
            last_index,
            last_term: log.term(last_index).unwrap_or(0),
            unst_offset: log.unstable.offset,
            unst_len: log.unstable.entries.len(),
            snap_index,
            snap_term,
            election_elapsed: r.election_elapsed,
            transferee: r.lead_transferee,
            pending_conf_index: r.pending_conf_index,
            uncommitted_size: r.uncommitted_size(),
            msgs_len: r.msgs.len(),
            read_states_len: r.read_states.len(),
            pending_request_snapshot: r.pending_request_snapshot,
            promotable: r.promotable(),
            conf: shape,
            prs_keys,
            prs,
            group_commit: r.group_commit(),
            max_apply_unpersisted: log.max_apply_unpersisted_log_limit,
        }
    }

    fn shadow_unstable(raw: &RawNode<SimStorage>) -> UnstShadow {
        let u = &raw.raft.raft_log.unstable;
        UnstShadow {
            offset: u.offset,
            ents: u.entries.iter().map(|e| (e.term, entry_digest(e), is_conf_entry(e))).collect(),
            lens: u.entries.iter().map(|e| e.get_data().len()).collect(),
        }
    }

    /// (term, digest, is_conf) of node n's logical log at index i, from the shadows
    /// (stable model below unstable.offset, unstable shadow above).
    pub fn log_at(node: &Node, i: u64) -> Option<(u64, u64, bool)> {
        if node.obs.snap_index != 0 && i <= node.obs.snap_index {
            return None;
        }
        if i >= node.unst.offset {
            return node.unst.ents.get((i - node.unst.offset) as usize).cloned();
        }
        node.disk.model.entry(i).map(|e| (e.term, entry_digest(e), is_conf_entry(e)))
    }

    /// Term of node n's logical log at i (including boundary / pending snapshot terms).
    pub fn term_at(node: &Node, i: u64) -> Option<u64> {
        if node.obs.snap_index != 0 && i <= node.obs.snap_index {
            return if i == node.obs.snap_index { Some(node.obs.snap_term) } else { None };
        }
        if i >= node.unst.offset {
            return node.unst.ents.get((i - node.unst.offset) as usize).map(|e| e.0);
        }
        node.disk.model.term(i).ok()
    }

    // ------------------------------------------------------------------------------------
    // the call wrapper
    // ------------------------------------------------------------------------------------

    /// Run one library call on node n under catch_unwind, refresh the observation and shadows,
    /// run the per-call monitors. Returns None if the node is not running.
    pub fn call<R>(
        &mut self,
        n: NodeId,
        kind: CallKind,
        f: impl FnOnce(&mut RawNode<SimStorage>) -> Result<R, String>,
    ) -> VResult<Option<R>> {
        let node = match self.nodes.get_mut(&n) {
            Some(x) if x.raw.is_some() => x,
            _ => return Ok(None),
        };
        let pre = node.obs.clone();
        let pre_unst = node.unst.clone();
        let raw = node.raw.as_mut().unwrap();
        let res = catch_unwind(AssertUnwindSafe(|| f(raw)));
        let res = match res {
            Ok(r) => r,
            Err(_) => {
                let msg = take_last_panic().unwrap_or_else(|| "<panic>".into());
                let sig = panic_signature(&msg);
                let detail = format!("panic in {:?} on node {}: {}", kind_name(&kind), n, msg);
                // the node is poisoned; drop it so nothing touches it again
                let node = self.nodes.get_mut(&n).unwrap();
                let raw = node.raw.take();
                std::mem::forget(raw);
                if msg.contains("HARNESS") {
                    return Err(self.violation("HARNESS", "HARNESS.self_check", n, detail, sig));
                }
                if self.focus == Some("C15") {
                    if let CallKind::Step(m) = &kind {
                        if m.get_msg_type() == MessageType::MsgSnapshot {
                            let d = format!("node {n} panicked while accepting a snapshot at {}: {msg}", m.get_snapshot().get_metadata().index);
                            return Err(self.violation("C15", "C15.install_effect", n, d, format!("install_panicked:{sig}")));
                        }
                    }
                }
                if self.focus == Some("C13") && msg.contains("cannot add into a full inflights") {
                    // the leader tried to put one more entry-carrying append in flight than the window allows; the
                    // window structure refused (by panicking), the flow-control rule was broken by the caller
                    let d = format!("leader {n} tried to send entries into a full in-flight window in {}: {msg}", kind_name(&kind));
                    return Err(self.violation("C13", "C13.window", n, d, "send_into_full_window:panicked".into()));
                }
                if self.focus == Some("C18") {
                    // a window operation that panics is not "exactly like a bounded FIFO": panics raised inside
                    // the Inflights code, or by a capacity change / buffer release call, belong to C18
                    let window_call = matches!(&kind, CallKind::Knob(Knob::MaxInflight { .. }) | CallKind::Knob(Knob::FreeInflightBuffers));
                    if msg.contains("inflights.rs") || window_call {
                        let d = format!("node {n}: an in-flight window operation panicked in {}: {msg}", kind_name(&kind));
                        return Err(self.violation("C18", "C18.window_is_fifo", n, d, format!("window_op_panicked:{sig}")));
                    }
                }
                return Err(self.violation("C20", "C20.no_panic", n, detail, sig));
            }
        };
        let raw = node.raw.as_ref().unwrap();
        let post = match catch_unwind(AssertUnwindSafe(|| Self::observe(raw))) {
            Ok(p) => p,
            Err(_) => {
                // reading the observable state itself failed: an internal structure is corrupt
                let msg = take_last_panic().unwrap_or_default();
                let (prop, check): (&'static str, &'static str) = if msg.contains("inflights") { ("C18", "C18.window_is_fifo") } else { ("C14", "C14.logical_log") };
                let d = format!("node {n}: reading its state after {} panicked: {msg}", kind_name(&kind));
                let raw = self.nodes.get_mut(&n).unwrap().raw.take();
                std::mem::forget(raw);
                return Err(self.violation(prop, check, n, d, "state_unreadable".into()));
            }
        };
        let emitted: Vec<Message> = if post.msgs_len > pre.msgs_len && !matches!(kind, CallKind::Ready) {
            raw.raft.msgs[pre.msgs_len..].to_vec()
        } else {
            Vec::new()
        };
        node.unst = Self::shadow_unstable(raw);
        node.obs = post.clone();
        if self.verbose && post.read_states_len != pre.read_states_len {
            eprintln!("   step {} node {n}: read_states {} -> {} in {}", self.step_no, pre.read_states_len, post.read_states_len, kind_name(&kind));
        }
        let (val, err) = match res {
            Ok(v) => (Some(v), None),
            Err(e) => (None, Some(e)),
        };
        let ctx = CallCtx { n, kind: &kind, pre: &pre, post: &post, pre_unst: &pre_unst, emitted: &emitted, err };
        self.after_call(&ctx)?;
        Ok(val)
    }

    // ------------------------------------------------------------------------------------
    // network
    // ------------------------------------------------------------------------------------

    /// Put messages produced by n on the simulated network. `early` = released although the
    /// Ready that carries them is not (fully) durable: the C06 promise check applies.
    pub fn release(&mut self, n: NodeId, msgs: Vec<Message>, early: bool) -> VResult<()> {
        for m in msgs {
            { let r = self.check_release(n, &m, early); self.gate(r)?; }
            let seq = self.link_seq.entry((n, m.to)).or_insert(0);
            *seq += 1;
            let k = MsgKey { f: n, t: m.to, s: *seq };
            let inc = self.nodes[&n].incarnation;
            self.flights.insert(k, InFlight { msg: m, sender_inc: inc });
            self.released.push(k);
            self.bump("msgs_released");
        }
        Ok(())
    }

    fn deliver(&mut self, k: MsgKey) -> VResult<()> {
        let fl = match self.flights.remove(&k) {
            Some(f) => f,
            None => return Ok(()),
        };
        let to = fl.msg.to;
        if let Some(ls) = self.lockstep.as_mut() {
            if ls.old_grants.contains(&k) {
                ls.stale_grant_delivered = true;
            }
        }
        if !self.nodes.get(&to).map(|n| n.running()).unwrap_or(false) {
            self.bump("deliver_to_dead");
            return Ok(());
        }
        self.bump("msgs_delivered");
        let m = fl.msg;
        if m.get_msg_type() == MessageType::MsgReadIndex && !m.entries.is_empty() {
            let key = (to, m.entries[0].data.to_vec());
            if !self.ghost.read_forward_seen.insert(key) {
                self.ghost.dup_read_at.insert(to);
                self.bump("duplicate_forwarded_read_delivered");
            }
        }
        if self.verbose {
            eprintln!("   step {} deliver {}>{}#{} {:?} t{} i{} lt{} c{} e{} rej{} ctx{:?} (sender incarnation {})", self.step_no, k.f, k.t, k.s, m.get_msg_type(), m.term, m.index, m.log_term, m.commit, m.entries.len(), m.reject, &m.context[..], fl.sender_inc);
        }
        let mc = m.clone();
        self.call(to, CallKind::Step(Box::new(mc)), move |raw| raw.step(m).map_err(|e| format!("{e:?}")))?;
        Ok(())
    }

    // ------------------------------------------------------------------------------------
    // node lifecycle
    // ------------------------------------------------------------------------------------

    fn start_node(&mut self, n: NodeId) -> VResult<()> {
        let node = match self.nodes.get_mut(&n) {
            Some(x) => x,
            None => return Ok(()),
        };
        if node.started || node.decommissioned {
            return Ok(());
        }
        node.started = true;
        self.boot(n)
    }

    fn boot(&mut self, n: NodeId) -> VResult<()> {
        let logger = self.logger.clone();
        let node = self.nodes.get_mut(&n).unwrap();
        let cfg = Self::make_config(node);
        let stale_applied = cfg.applied < node.sm.applied;
        let store = node.disk.store.clone();
        let res = catch_unwind(AssertUnwindSafe(|| RawNode::new(&cfg, store, &logger)));
        let raw = match res {
            Ok(Ok(r)) => r,
            Ok(Err(e)) => {
                let d = format!("RawNode::new failed on node {n}: {e:?}");
                return Err(self.violation("C20", "C20.no_panic", n, d.clone(), format!("new_err:{e:?}")));
            }
            Err(_) => {
                let msg = take_last_panic().unwrap_or_default();
                let d = format!("panic in RawNode::new on node {n}: {msg}");
                return Err(self.violation("C20", "C20.no_panic", n, d, panic_signature(&msg)));
            }
        };
        node.obs = Self::observe(&raw);
        node.unst = Self::shadow_unstable(&raw);
        node.raw = Some(raw);
        if stale_applied {
            *self.stats.entry("restart_with_config_applied_below_snapshot").or_insert(0) += 1;
        }
        node.apply_q.clear();
        node.outstanding.clear();
        node.handoff = node.sm.applied;
        node.hs_handed = node.raw.as_ref().unwrap().raft.hard_state();
        node.commit_handed = node.hs_handed.commit;
        node.ghost_uncommitted.clear();
        node.transferee_seen = None;
        node.want_cap.clear();
        node.pending_notify = None;
        node.notify_queue.clear();
        node.snap_outstanding.clear();
        node.probe_outstanding.clear();
        node.snap_handed.clear();
        node.persist_handed.clear();
        node.want_group_commit = false;
        if node.obs.commit < node.max_commit_ever {
            node.reloaded_lower_commit = true;
        }
        // run the monitors for the "New" pseudo-call
        let pre = Obs::default();
        let post = node.obs.clone();
        let pre_unst = UnstShadow::default();
        let kind = CallKind::New;
        let ctx = CallCtx { n, kind: &kind, pre: &pre, post: &post, pre_unst: &pre_unst, emitted: &[], err: None };
        self.after_call(&ctx)?;
        { let r = self.after_storage_op(n); self.gate(r)?; }
        Ok(())
    }

    fn crash(&mut self, n: NodeId, keep: u32, torn: u32) -> VResult<()> {
        let node = match self.nodes.get_mut(&n) {
            Some(x) if x.raw.is_some() => x,
            _ => return Ok(()),
        };
        node.raw = None;
        let (_kept, lost, torn_applied) = node.disk.crash(keep as usize, torn as usize);
        node.apply_q.clear();
        node.outstanding.clear();
        // A term the node entered but never made durable and never mentioned to anybody is
        // forgotten legitimately (only a node that wins by its own vote can create entries in
        // such a term): after the restart it may live through that term again, differently.
        let (mem_term, dur_term) = (node.obs.term, node.disk.durable.hs.term);
        let told = self.ghost.max_term_released.get(&n).cloned().unwrap_or(0);
        for t in (dur_term + 1)..=mem_term {
            if t > told {
                if self.ghost.leader_of.get(&t) == Some(&n) {
                    self.ghost.leader_of.remove(&t);
                    self.ghost.reg.retain(|k, _| k.1 != t);
                    *self.stats.entry("forgotten_undurable_leader_term").or_insert(0) += 1;
                }
                self.ghost.granted.remove(&(n, t));
            }
        }
        self.bump("crashes");
        if lost > 0 {
            self.bump("crashes_losing_writes");
        }
        if torn_applied > 0 {
            self.bump("crashes_torn");
        }
        Ok(())
    }

    fn restart(&mut self, n: NodeId) -> VResult<()> {
        let node = match self.nodes.get_mut(&n) {
            Some(x) if x.raw.is_none() && x.started && !x.decommissioned => x,
            _ => return Ok(()),
        };
        node.sm = node.disk.recover();
        node.incarnation += 1;
        self.bump("restarts");
        self.boot(n)?;
        let r = self.check_restart(n);
        self.gate(r)
    }

    // ------------------------------------------------------------------------------------
    // the simulated application: Ready rounds
    // ------------------------------------------------------------------------------------

    fn app_ready(&mut self, n: NodeId, mode: Mode, skip_fsync: bool, force: bool) -> VResult<()> {
        let has = match self.nodes.get(&n) {
            Some(x) if x.raw.is_some() => x.raw.as_ref().unwrap().has_ready(),
            _ => return Ok(()),
        };
        if !has && !force {
            return Ok(());
        }
        self.bump("ready_rounds");
        // ---- 1. ready()
        let mut rd = match self.call(n, CallKind::Ready, |raw| Ok(raw.ready()))? {
            Some(r) => r,
            None => return Ok(()),
        };
        { let r = self.check_ready(n, has, &rd); self.gate(r)?; }

        // ---- 2. messages that may go out immediately (leader)
        let immediate = rd.take_messages();
        if !immediate.is_empty() {
            // "early" iff something of this Ready (or an earlier one) is not yet durable
            let early = {
                let node = &self.nodes[&n];
                !node.disk.wq.is_empty() || rd.hs().is_some() || !rd.entries().is_empty() || !rd.snapshot().is_empty()
            };
            self.release(n, immediate, early)?;
        }

        // ---- read states
        for rs in rd.take_read_states() {
            { let r = self.check_read_state(n, &rs); self.gate(r)?; }
        }

        // ---- 3. snapshot
        if !rd.snapshot().is_empty() {
            let snap = rd.snapshot().clone();
            self.install_snapshot(n, snap)?;
        }

        // ---- committed entries: stash
        let committed = rd.take_committed_entries();
        {
            let node = self.nodes.get_mut(&n).unwrap();
            node.apply_q.extend(committed);
        }

        // ---- 4. entries
        if !rd.entries().is_empty() {
            // half of the simulated applications move the entries out of the Ready (as an application that fills
            // a write batch does), the others borrow them
            let takes = crate::prng::mix(self.cfg.timeout_salt, n) & 1 == 1;
            let ents = if takes {
                self.bump("ready_entries_taken");
                rd.take_entries()
            } else {
                rd.entries().clone()
            };
            if ents.windows(2).any(|w| w[1].index != w[0].index + 1) {
                let d = format!("node {n}: Ready.entries() is not contiguous: indexes {:?}", ents.iter().map(|e| e.index).collect::<Vec<_>>());
                return Err(self.violation("C07", "C07.persist_handoff", n, d, "entries_not_contiguous".into()));
            }
            let node = self.nodes.get_mut(&n).unwrap();
            let r = catch_unwind(AssertUnwindSafe(|| node.disk.store.mem.wl().append(&ents)));
            match r {
                Ok(Ok(())) => {}
                other => {
                    let msg = take_last_panic().unwrap_or_default();
                    let d = format!("Ready.entries() not appendable to storage on node {n}: {:?} {}", other.is_ok(), msg);
                    return Err(self.violation("C07", "C07.persist_handoff", n, d, "entries_not_appendable".into()));
                }
            }
            node.disk.model.append(&ents);
            node.disk.queue(WriteItem::Entries(ents));
            { let r = self.after_storage_op(n); self.gate(r)?; }
        }
        // ---- 5. hard state
        if let Some(hs) = rd.hs() {
            let node = self.nodes.get_mut(&n).unwrap();
            node.disk.store.mem.wl().set_hardstate(hs.clone());
            node.disk.model.hs = hs.clone();
            node.disk.queue(WriteItem::HardState(hs.clone()));
        }
        let must_sync = rd.must_sync();
        let number = rd.number();
        let persisted_msgs = rd.take_persisted_messages();

        match mode {
            Mode::Async => {
                self.bump("rounds_async");
                self.call(n, CallKind::AdvanceAsync, move |raw| {
                    raw.advance_append_async(rd);
                    Ok(())
                })?;
                let node = self.nodes.get_mut(&n).unwrap();
                let wq_end = node.disk.wq_end();
                node.outstanding.push_back(Outstanding { number, msgs: persisted_msgs, wq_end });
                // nothing queued at all => already durable (a still postponed notification of an older write stays postponed)
                let nothing_new = self.nodes[&n].outstanding.back().map(|o| o.wq_end > self.nodes[&n].disk.wq_base).unwrap_or(true);
                if !nothing_new {
                    // reports stay in order: behind postponed ones this one is postponed too
                    let behind = !self.nodes[&n].notify_queue.is_empty();
                    self.complete_persisted(n, behind)?;
                }
            }
            Mode::Sync | Mode::SyncLazy => {
                self.bump("rounds_sync");
                // ---- 6. fsync (may be skipped when must_sync is false), earlier async readies first
                let do_fsync = must_sync || !skip_fsync || !self.nodes[&n].outstanding.is_empty();
                if do_fsync {
                    let node = self.nodes.get_mut(&n).unwrap();
                    node.disk.fsync(usize::MAX);
                } else {
                    self.bump("fsync_skipped");
                }
                // release held messages of earlier async readies, in order
                self.nodes.get_mut(&n).unwrap().pending_notify = None; // advance_append below reports every Ready as persisted
                self.nodes.get_mut(&n).unwrap().notify_queue.clear();
                let held: Vec<Outstanding> = self.nodes.get_mut(&n).unwrap().outstanding.drain(..).collect();
                for o in held {
                    self.release(n, o.msgs, false)?;
                }
                self.release(n, persisted_msgs, !do_fsync)?;
                // ---- 7. advance
                let eager = mode == Mode::Sync;
                let mut light = if eager {
                    // `advance()` tells raft that everything handed out so far has been applied
                    self.apply_entries(n, u32::MAX, false)?;
                    match self.call(n, CallKind::Advance, move |raw| Ok(raw.advance(rd)))? {
                        Some(l) => l,
                        None => return Ok(()),
                    }
                } else {
                    match self.call(n, CallKind::AdvanceAppend, move |raw| Ok(raw.advance_append(rd)))? {
                        Some(l) => l,
                        None => return Ok(()),
                    }
                };
                { let r = self.check_light_ready(n, &light); self.gate(r)?; }
                if let Some(c) = light.commit_index() {
                    let node = self.nodes.get_mut(&n).unwrap();
                    let mut hs = node.disk.model.hs.clone();
                    hs.commit = c;
                    node.disk.store.mem.wl().mut_hard_state().commit = c;
                    node.disk.model.hs = hs.clone();
                    node.disk.queue(WriteItem::HardState(hs));
                }
                { let r = self.check_leader_msgs(n, light.messages(), 0); self.gate(r)?; }
                self.note_light_messages(n, light.messages());
                let lmsgs = light.take_messages();
                if !lmsgs.is_empty() {
                    let early = !self.nodes[&n].disk.wq.is_empty();
                    self.release(n, lmsgs, early)?;
                }
                let lc = light.take_committed_entries();
                self.nodes.get_mut(&n).unwrap().apply_q.extend(lc);
                if eager {
                    self.apply_entries(n, u32::MAX, true)?;
                }
            }
        }
        Ok(())
    }

    /// Release persisted messages of async readies whose writes are durable and notify raft.
    fn complete_persisted(&mut self, n: NodeId, defer: bool) -> VResult<()> {
        let mut done: Vec<Outstanding> = Vec::new();
        {
            let node = match self.nodes.get_mut(&n) {
                Some(x) if x.raw.is_some() => x,
                _ => return Ok(()),
            };
            let durable_to = node.disk.wq_base;
            while let Some(o) = node.outstanding.front() {
                if o.wq_end <= durable_to {
                    done.push(node.outstanding.pop_front().unwrap());
                } else {
                    break;
                }
            }
        }
        if done.is_empty() {
            if !defer {
                return self.notify(n); // a postponed notification is not postponed beyond the next one
            }
            return Ok(());
        }
        let number = done.last().unwrap().number;
        let numbers: Vec<u64> = done.iter().map(|o| o.number).collect();
        if done.len() > 1 {
            self.bump("async_persist_skipped_numbers");
        }
        for o in done {
            self.release(n, o.msgs, false)?;
        }
        if defer {
            let node = self.nodes.get_mut(&n).unwrap();
            node.pending_notify = Some(node.pending_notify.unwrap_or(0).max(number));
            node.notify_queue.extend(numbers);
            self.bump("persist_notifications_deferred");
            return Ok(());
        }
        let number = {
            let node = self.nodes.get_mut(&n).unwrap();
            node.notify_queue.clear();
            number.max(node.pending_notify.take().unwrap_or(0))
        };
        self.call(n, CallKind::OnPersist { number }, move |raw| {
            raw.on_persist_ready(number);
            Ok(())
        })?;
        Ok(())
    }

    fn notify(&mut self, n: NodeId) -> VResult<()> {
        let number = match self.nodes.get_mut(&n) {
            Some(x) if x.raw.is_some() => {
                x.notify_queue.clear();
                x.pending_notify.take()
            }
            _ => None,
        };
        if let Some(number) = number {
            self.call(n, CallKind::OnPersist { number }, move |raw| {
                raw.on_persist_ready(number);
                Ok(())
            })?;
        }
        Ok(())
    }

    /// The application reports completed writes one by one: only the oldest unreported Ready number.
    fn notify_one(&mut self, n: NodeId) -> VResult<()> {
        let number = match self.nodes.get_mut(&n) {
            Some(x) if x.raw.is_some() => {
                let k = x.notify_queue.pop_front();
                if x.notify_queue.is_empty() {
                    x.pending_notify = None;
                }
                k
            }
            _ => None,
        };
        if let Some(number) = number {
            self.bump("persist_notifications_one_by_one");
            self.call(n, CallKind::OnPersist { number }, move |raw| {
                raw.on_persist_ready(number);
                Ok(())
            })?;
        }
        Ok(())
    }

    fn install_snapshot(&mut self, n: NodeId, snap: Snapshot) -> VResult<()> {
        self.bump("snapshots_installed");
        let node = self.nodes.get_mut(&n).unwrap();
        let at_boundary = snap.get_metadata().index + 1 == node.disk.model.first_index()
            && node.disk.model.term(snap.get_metadata().index) == Ok(snap.get_metadata().term);
        let r = if at_boundary {
            // MemStorageCore::apply_snapshot documents idx < first_index as outside its precondition;
            // the storage already is at this snapshot point, so the application has nothing to write.
            Ok(Ok(()))
        } else {
            catch_unwind(AssertUnwindSafe(|| node.disk.store.mem.wl().apply_snapshot(snap.clone())))
        };
        match r {
            Ok(Ok(())) => {}
            _ => {
                let msg = take_last_panic().unwrap_or_default();
                let d = format!("Ready.snapshot() [{} @ {}] not applicable to storage on node {n} (first_index {}): {}",
                    snap.get_metadata().index, snap.get_metadata().term, node.disk.model.first_index(), msg);
                return Err(self.violation("C15", "C15.install_effect", n, d, "snapshot_not_applicable".into()));
            }
        }
        if !at_boundary {
            node.disk.model.apply_snapshot(&snap);
            node.disk.queue(WriteItem::Snapshot(snap.clone()));
        } else {
            self.stats.entry("snapshot_at_storage_boundary").and_modify(|x| *x += 1).or_insert(1);
        }
        let st = AppState::from_snapshot(&snap);
        // queued-but-unapplied entries covered by the snapshot are dropped
        while node.apply_q.front().map(|e| e.index <= st.applied).unwrap_or(false) {
            node.apply_q.pop_front();
        }
        node.sm = st.clone();
        node.disk.store.ctl.borrow_mut().snap_src = st;
        { let r = self.check_snapshot_installed(n, &snap); self.gate(r)?; }
        let r = self.after_storage_op(n);
        self.gate(r)
    }

    /// Apply up to `count` stashed entries. `notify`: call advance_apply_to afterwards
    /// (false inside a Sync round before `advance()`, which does it itself).
    fn apply_entries(&mut self, n: NodeId, count: u32, notify: bool) -> VResult<()> {
        let mut applied_any = false;
        // A defensive application does not apply stashed entries while raft holds an accepted but not
        // yet handed-out snapshot (RawNode::snap()): they are all covered by it, and calling
        // apply_conf_change for them would replay old membership changes onto the snapshot's
        // configuration, which raft has already switched to (DESIGN.md, limits).
        if self.nodes.get(&n).map(|x| x.running() && x.obs.snap_index != 0).unwrap_or(false) {
            self.bump("apply_deferred_for_pending_snapshot");
            return Ok(());
        }
        for _ in 0..count {
            let e = {
                let node = match self.nodes.get_mut(&n) {
                    Some(x) if x.raw.is_some() => x,
                    _ => return Ok(()),
                };
                match node.apply_q.pop_front() {
                    Some(e) => e,
                    None => break,
                }
            };
            {
                let node = self.nodes.get_mut(&n).unwrap();
                if e.index <= node.sm.applied {
                    continue; // covered by a snapshot installed meanwhile
                }
                if e.index != node.sm.applied + 1 {
                    let d = format!("node {n} is asked to apply index {} right after {}", e.index, node.sm.applied);
                    return Err(self.violation("C07", "C07.handoff_exact", n, d, "apply_gap".into()));
                }
                node.sm.hash = chain_hash(node.sm.hash, e.index, e.term, entry_digest(&e));
                node.sm.applied = e.index;
                node.sm.applied_term = e.term;
            }
            applied_any = true;
            self.bump("entries_applied");
            if is_conf_entry(&e) {
                if let Some(cc) = decode_conf_entry(&e) {
                    let cc2 = cc.clone();
                    let idx = e.index;
                    let r = self.call(n, CallKind::ApplyConf { index: idx, cc: cc2 }, move |raw| {
                        raw.apply_conf_change(&cc).map_err(|e| format!("{e:?}"))
                    })?;
                    if let Some(cs) = r {
                        let node = self.nodes.get_mut(&n).unwrap();
                        node.sm.cs = cs.clone();
                        node.disk.store.mem.wl().set_conf_state(cs.clone());
                        node.disk.model.cs = cs;
                        self.bump("conf_changes_applied");
                    } else {
                        self.bump("conf_changes_rejected_at_apply");
                    }
                }
            }
            { let r = self.check_applied(n, &e); self.gate(r)?; }
        }
        if applied_any || notify {
            let node = self.nodes.get_mut(&n).unwrap();
            let st = node.sm.clone();
            node.disk.store.ctl.borrow_mut().snap_src = st.clone();
            if applied_any {
                node.disk.queue(WriteItem::AppCkpt(st));
            }
        }
        if notify {
            let (sm_applied, raft_applied, first) = {
                let node = &self.nodes[&n];
                (node.sm.applied, node.obs.applied, node.obs.first_index)
            };
            // `sm_applied < first` only after a restart with Config.applied below the snapshot
            // point: nothing at or below the snapshot is ever handed out, so there is nothing
            // to report (reporting it and then calling advance(), which reports the older
            // hand-off index again, is a mix the documentation does not cover: not simulated).
            if sm_applied > raft_applied && sm_applied >= first {
                self.call(n, CallKind::ApplyTo { index: sm_applied }, move |raw| {
                    raw.advance_apply_to(sm_applied);
                    Ok(())
                })?;
            }
        }
        Ok(())
    }

    fn fsync(&mut self, n: NodeId, count: u32, defer: bool) -> VResult<()> {
        {
            let node = match self.nodes.get_mut(&n) {
                Some(x) if x.raw.is_some() => x,
                _ => return Ok(()),
            };
            if node.disk.wq.is_empty() && node.outstanding.is_empty() && node.pending_notify.is_none() {
                return Ok(());
            }
            let k = node.disk.fsync(count as usize);
            if k > 0 {
                self.bump("fsyncs");
            }
        }
        self.complete_persisted(n, defer)
    }

    fn compact(&mut self, n: NodeId, back: u64) -> VResult<()> {
        let node = match self.nodes.get_mut(&n) {
            Some(x) if x.raw.is_some() => x,
            _ => return Ok(()),
        };
        let applied = node.sm.applied.min(node.obs.applied);
        let idx = applied.saturating_sub(back);
        // contract: never beyond applied; keep the entry at idx itself; nothing beyond storage
        if idx <= node.disk.model.first_index() || idx > node.disk.model.last_index() {
            return Ok(());
        }
        let prev_term = match node.disk.model.term(idx - 1) {
            Ok(t) => t,
            Err(_) => return Ok(()),
        };
        let r = catch_unwind(AssertUnwindSafe(|| node.disk.store.mem.wl().compact(idx)));
        if !matches!(r, Ok(Ok(()))) {
            let msg = take_last_panic().unwrap_or_default();
            let d = format!("MemStorage::compact({idx}) failed within its documented precondition: {msg}");
            return Err(self.violation("C19", "C19.differential", n, d, "compact_failed".into()));
        }
        node.disk.model.compact(idx);
        node.disk.queue(WriteItem::Compact(idx, prev_term));
        self.bump("compactions");
        let r = self.after_storage_op(n);
        self.gate(r)
    }

    // ------------------------------------------------------------------------------------
    // apply(): the only mutator
    // ------------------------------------------------------------------------------------

    pub fn apply(&mut self, a: &Action) -> VResult<()> {
        if let Some(v) = self.init_violation.take() {
            let r = self.gate(Err(v));
            r?;
        }
        self.step_no += 1;
        self.released.clear();
        let r = self.apply_inner(a);
        if r.is_ok() {
            self.note_abstract(a);
            if self.step_no % 256 == 0 {
                { let r = self.full_recheck(); self.gate(r)?; }
            }
        }
        r
    }

    pub fn apply_sub(&mut self, a: &Action) -> VResult<()> {
        self.apply_inner(a)
    }

    fn apply_inner(&mut self, a: &Action) -> VResult<()> {
        match a {
            Action::Tick { n } => {
                self.bump("ticks");
                self.call(*n, CallKind::Tick, |raw| Ok(raw.tick()))?;
            }
            Action::Deliver { k } => self.deliver(*k)?,
            Action::Drop { k } => {
                if self.flights.remove(k).is_some() {
                    self.bump("msgs_dropped");
                }
            }
            Action::Dup { k } => {
                if let Some(fl) = self.flights.get(k) {
                    let m = fl.msg.clone();
                    let inc = fl.sender_inc;
                    let seq = self.link_seq.entry((k.f, k.t)).or_insert(0);
                    *seq += 1;
                    let k2 = MsgKey { f: k.f, t: k.t, s: *seq };
                    self.flights.insert(k2, InFlight { msg: m, sender_inc: inc });
                    self.released.push(k2);
                    if let Some(ls) = self.lockstep.as_mut() {
                        if ls.old_grants.contains(k) {
                            ls.old_grants.push(k2);
                        }
                    }
                    self.bump("msgs_duplicated");
                }
            }
            Action::AppReady { n, mode, skip_fsync, force } => self.app_ready(*n, *mode, *skip_fsync, *force)?,
            Action::Fsync { n, count, defer } => self.fsync(*n, *count, *defer)?,
            Action::Notify { n } => self.notify(*n)?,
            Action::NotifyOne { n } => self.notify_one(*n)?,
            Action::Apply { n, count } => self.apply_entries(*n, *count, true)?,
            Action::Propose { n, id, size } => {
                let data = new_entry_payload(*id, *size);
                let sz = data.len();
                self.bump("proposals");
                self.ghost.note_proposal(*id);
                let r = self.call(*n, CallKind::Propose { id: *id, size: sz }, move |raw| {
                    raw.propose(vec![], data).map_err(|e| format!("{e:?}"))
                })?;
                if r.is_some() {
                    self.bump("proposals_accepted");
                }
            }
            Action::ProposeConf { n, id, v1, transition, changes } => {
                let (c1, c2) = build_cc(*v1, *transition, changes);
                self.bump("conf_proposals");
                let ctx = id.to_le_bytes().to_vec();
                let kind = CallKind::ProposeConf { cc: c2.clone(), v1: *v1 };
                let r = self.call(*n, kind, move |raw| {
                    match c1 {
                        Some(c) => raw.propose_conf_change(ctx, c),
                        None => raw.propose_conf_change(ctx, c2),
                    }
                    .map_err(|e| format!("{e:?}"))
                })?;
                if r.is_some() {
                    self.bump("conf_proposals_accepted");
                }
            }
            Action::ProposeBatch { n, id, before, after, conf } => {
                let mut ents: Vec<Entry> = Vec::new();
                let mut next = *id;
                let mut normal = |k: u8, ents: &mut Vec<Entry>, next: &mut u64| {
                    for _ in 0..k {
                        let mut e = Entry::default();
                        e.data = new_entry_payload(*next, 12).into();
                        *next += 1;
                        ents.push(e);
                    }
                };
                normal(*before, &mut ents, &mut next);
                if let Some((v1, transition, changes)) = conf {
                    let (c1, c2) = build_cc(*v1, *transition, changes);
                    let mut e = Entry::default();
                    match c1 {
                        Some(c) => {
                            e.set_entry_type(EntryType::EntryConfChange);
                            e.data = c.write_to_bytes().unwrap().into();
                        }
                        None => {
                            e.set_entry_type(EntryType::EntryConfChangeV2);
                            e.data = c2.write_to_bytes().unwrap().into();
                        }
                    }
                    ents.push(e);
                }
                normal(*after, &mut ents, &mut next);
                if !ents.is_empty() {
                    let mut m = Message::default();
                    m.set_msg_type(MessageType::MsgPropose);
                    m.from = *n;
                    m.to = *n;
                    m.set_entries(ents.into());
                    self.bump("batched_proposals");
                    let mc = m.clone();
                    self.call(*n, CallKind::Step(Box::new(mc)), move |raw| raw.step(m).map_err(|e| format!("{e:?}")))?;
                }
            }
            Action::ReadIndex { n, id } => {
                if self.nodes.get(n).map(|x| x.running()).unwrap_or(false) {
                    self.bump("reads_issued");
                    self.ghost_note_read(*n, *id);
                    let ctx = read_ctx(*n, *id);
                    self.call(*n, CallKind::ReadIndex { id: *id }, move |raw| {
                        raw.read_index(ctx);
                        Ok(())
                    })?;
                }
            }
            Action::Transfer { n, target } => {
                self.bump("transfers_requested");
                let t = *target;
                self.call(*n, CallKind::Transfer { target: t }, move |raw| {
                    raw.transfer_leader(t);
                    Ok(())
                })?;
            }
            Action::Campaign { n } => {
                self.call(*n, CallKind::Campaign, |raw| raw.campaign().map_err(|e| format!("{e:?}")))?;
            }
            Action::RequestSnapshot { n } => {
                let r = self.call(*n, CallKind::RequestSnapshot, |raw| raw.request_snapshot().map_err(|e| format!("{e:?}")))?;
                if r.is_some() {
                    self.bump("snapshot_requests_accepted");
                }
            }
            Action::Ping { n } => {
                self.call(*n, CallKind::Ping, |raw| {
                    raw.ping();
                    Ok(())
                })?;
            }
            Action::ReportUnreachable { n, peer } => {
                let p = *peer;
                self.call(*n, CallKind::ReportUnreachable { peer: p }, move |raw| {
                    raw.report_unreachable(p);
                    Ok(())
                })?;
            }
            Action::ReportSnapshot { n, peer, ok } => {
                let (p, ok) = (*peer, *ok);
                self.call(*n, CallKind::ReportSnapshot { peer: p, ok }, move |raw| {
                    raw.report_snapshot(p, if ok { SnapshotStatus::Finish } else { SnapshotStatus::Failure });
                    Ok(())
                })?;
            }
            Action::Compact { n, back } => self.compact(*n, *back)?,
            Action::ConfExercise { n, seed } => {
                let r = self.conf_exercise(*n, *seed);
                self.gate(r)?;
            }
            Action::StorageExercise { n, seed } => {
                if let Some(node) = self.nodes.get(n) {
                    if node.started {
                        let model = node.disk.model.clone();
                        let r = std::panic::catch_unwind(std::panic::AssertUnwindSafe(|| crate::disk::exercise(&model, *seed)))
                            .unwrap_or_else(|_| Err(format!("a mutation panicked: {}", take_last_panic().unwrap_or_default())));
                        self.bump("storage_what_if_sequences");
                        match r {
                            Ok(k) => *self.stats.entry("chk.C19.differential").or_insert(0) += k,
                            Err(e) => {
                                let d = format!("what-if mutation sequence on a copy of node {n}'s storage (seed {seed}): {e}");
                                let v = self.violation("C19", "C19.differential", *n, d, "memstorage_sequence".into());
                                self.gate(Err(v))?;
                            }
                        }
                    }
                }
            }
            Action::SetKnob { n, knob } => {
                let k = *knob;
                let universe: Vec<NodeId> = self.cfg.nodes.keys().cloned().collect();
                if let Knob::GroupCommit(b) = k {
                    if let Some(x) = self.nodes.get_mut(n) {
                        if x.running() {
                            x.want_group_commit = b;
                        }
                    }
                }
                self.call(*n, CallKind::Knob(k), move |raw| {
                    match k {
                        Knob::MaxInflight { peer, cap } => raw.raft.adjust_max_inflight_msgs(peer, cap),
                        Knob::BatchAppend(b) => raw.set_batch_append(b),
                        Knob::SkipBcastCommit(b) => raw.skip_bcast_commit(b),
                        Knob::MaxCommittedSizePerReady(s) => raw.raft.set_max_committed_size_per_ready(s),
                        Knob::Priority(p) => raw.set_priority(p),
                        Knob::CheckQuorum(b) => raw.raft.set_check_quorum(b),
                        Knob::MaxApplyUnpersisted(l) => raw.raft.set_max_apply_unpersisted_log_limit(l),
                        Knob::FreeInflightBuffers => raw.raft.maybe_free_inflight_buffers(),
                        Knob::GroupCommit(b) => raw.raft.enable_group_commit(b),
                        Knob::AssignGroup { peer, group } => raw.raft.assign_commit_groups(&[(peer, group.max(1))]),
                        Knob::ClearGroups => raw.raft.clear_commit_group(),
                        Knob::AssignAllGroups { seed, k } => {
                            let map: Vec<(u64, u64)> = universe.iter().map(|id| (*id, 1 + crate::prng::mix(seed, *id) % k.max(1))).collect();
                            raw.raft.assign_commit_groups(&map)
                        }
                    }
                    Ok(())
                })?;
            }
            Action::StorageFault { n, log_unavailable, snap_unavailable } => {
                if let Some(node) = self.nodes.get_mut(n) {
                    if node.raw.is_some() {
                        node.disk.store.mem.wl().trigger_log_unavailable(*log_unavailable);
                        node.disk.store.ctl.borrow_mut().snap_unavailable = *snap_unavailable;
                    }
                }
            }
            Action::EntriesFetched { n } => {
                let ctx = match self.nodes.get_mut(n) {
                    Some(node) if node.raw.is_some() => node.disk.store.mem.wl().take_get_entries_context(),
                    _ => None,
                };
                if let Some(ctx) = ctx {
                    if ctx.can_async() {
                        self.bump("entries_fetched_callbacks");
                        // the fetch has completed: the log is available again
                        self.nodes.get_mut(n).unwrap().disk.store.mem.wl().trigger_log_unavailable(false);
                        self.call(*n, CallKind::EntriesFetched, move |raw| {
                            raw.on_entries_fetched(ctx);
                            Ok(())
                        })?;
                    }
                }
            }
            Action::Crash { n, keep, torn } => self.crash(*n, *keep, *torn)?,
            Action::Restart { n } => self.restart(*n)?,
            Action::StartNode { n } => self.start_node(*n)?,
            Action::Decommission { n } => {
                if let Some(node) = self.nodes.get_mut(n) {
                    if node.started && !node.decommissioned {
                        node.raw = None;
                        node.decommissioned = true;
                        node.apply_q.clear();
                        node.outstanding.clear();
                        self.bump("decommissions");
                    }
                }
            }
            Action::Bogus { n, kind, from, term_delta } => {
                let r = self.bogus(*n, *kind, *from, *term_delta);
                self.gate(r)?;
            }
            Action::StrangerVote { n, from, term_delta, pre, fresh } => {
                let st = match self.nodes.get(n) {
                    Some(x) if x.running() && !x.obs.prs_keys.contains(from) && !self.nodes.contains_key(from) => Some((x.obs.term, x.obs.last_index, x.obs.last_term)),
                    _ => None,
                };
                if let Some((term, li, lt)) = st {
                    let mut m = Message::default();
                    m.set_msg_type(if *pre { MessageType::MsgRequestPreVote } else { MessageType::MsgRequestVote });
                    m.from = *from;
                    m.to = *n;
                    // a campaigning node is at least at term 1 (term 0 marks local messages)
                    m.term = (term + *term_delta as u64).max(1);
                    if *fresh {
                        m.index = li;
                        m.log_term = lt;
                    }
                    self.bump("stranger_vote_requests");
                    let mc = m.clone();
                    self.call(*n, CallKind::Step(Box::new(mc)), move |raw| raw.step(m).map_err(|e| format!("{e:?}")))?;
                }
            }
            Action::Stabilise { seed, transfer } => self.stabilise(*seed, *transfer)?,
            Action::Lockstep { majority } => self.lockstep_round(majority)?,
        }
        Ok(())
    }

    /// Abstract trace / state hashes for the evidence (never influences behaviour).
    fn note_abstract(&mut self, a: &Action) {
        let (kind, node): (u64, u64) = match a {
            Action::Tick { n } => (1, *n),
            Action::Deliver { k } => (2, k.t),
            Action::Drop { k } => (3, k.t),
            Action::Dup { k } => (4, k.t),
            Action::AppReady { n, mode, .. } => (5 + *mode as u64, *n),
            Action::Fsync { n, .. } => (9, *n),
            Action::Notify { n } => (32, *n),
            Action::NotifyOne { n } => (33, *n),
            Action::Apply { n, .. } => (10, *n),
            Action::Propose { n, .. } => (11, *n),
            Action::ProposeBatch { n, .. } => (31, *n),
            Action::ProposeConf { n, .. } => (12, *n),
            Action::ReadIndex { n, .. } => (13, *n),
            Action::Transfer { n, .. } => (14, *n),
            Action::Campaign { n } => (15, *n),
            Action::RequestSnapshot { n } => (16, *n),
            Action::Ping { n } => (17, *n),
            Action::ReportUnreachable { n, .. } => (18, *n),
            Action::ReportSnapshot { n, .. } => (19, *n),
            Action::Compact { n, .. } => (20, *n),
            Action::StorageExercise { n, .. } => (34, *n),
            Action::ConfExercise { n, .. } => (36, *n),
            Action::SetKnob { n, .. } => (21, *n),
            Action::StorageFault { n, .. } => (22, *n),
            Action::EntriesFetched { n } => (23, *n),
            Action::Crash { n, .. } => (24, *n),
            Action::Restart { n } => (25, *n),
            Action::StartNode { n } => (26, *n),
            Action::Decommission { n } => (27, *n),
            Action::Bogus { n, .. } => (28, *n),
            Action::StrangerVote { n, .. } => (35, *n),
            Action::Stabilise { .. } => (29, 0),
            Action::Lockstep { .. } => (30, 0),
        };
        let role = self.nodes.get(&node).map(|x| if x.running() { x.obs.role as u64 + 1 } else { 0 }).unwrap_or(9);
        self.trace_hash = mix3(self.trace_hash, kind * 16 + node, role);
        // abstract cluster state: per node (role, term rank, log length rank, commit rank)
        let mut d = Digest::new();
        let terms: BTreeSet<u64> = self.nodes.values().filter(|x| x.running()).map(|x| x.obs.term).collect();
        let lasts: BTreeSet<u64> = self.nodes.values().filter(|x| x.running()).map(|x| x.obs.last_index).collect();
        let commits: BTreeSet<u64> = self.nodes.values().filter(|x| x.running()).map(|x| x.obs.commit).collect();
        let rank = |s: &BTreeSet<u64>, v: u64| s.iter().position(|x| *x == v).unwrap_or(0) as u64;
        for x in self.nodes.values() {
            if !x.running() {
                d.u64(0xdead);
                continue;
            }
            d.u64(x.obs.role as u64)
                .u64(rank(&terms, x.obs.term))
                .u64(rank(&lasts, x.obs.last_index))
                .u64(rank(&commits, x.obs.commit))
                .u64(x.obs.conf.voters.len() as u64 * 16 + x.obs.conf.outgoing.len() as u64)
                .u64(x.obs.snap_index.min(1) * 2 + (x.obs.unst_len.min(1) as u64));
            for p in &x.obs.prs {
                d.u64(p.state as u64 * 4 + p.is_paused as u64 * 2 + (p.pending_request_snapshot.min(1)));
            }
        }
        self.state_hashes.insert(d.finish());
    }
}

pub fn read_ctx(n: NodeId, id: u64) -> Vec<u8> {
    let mut v = Vec::with_capacity(16);
    v.extend_from_slice(&n.to_le_bytes());
    v.extend_from_slice(&id.to_le_bytes());
    v
}

pub fn parse_read_ctx(b: &[u8]) -> Option<(NodeId, u64)> {
    if b.len() != 16 {
        return None;
    }
    Some((u64::from_le_bytes(b[..8].try_into().unwrap()), u64::from_le_bytes(b[8..].try_into().unwrap())))
}

pub fn kind_name(k: &CallKind) -> String {
    match k {
        CallKind::Step(m) => format!("step({:?} from {} term {})", m.get_msg_type(), m.from, m.term),
        CallKind::Bogus(m) => format!("step-bogus({:?} from {})", m.get_msg_type(), m.from),
        other => {
            let s = format!("{other:?}");
            s.split(|c| c == ' ' || c == '{' || c == '(').next().unwrap_or("").to_string()
        }
    }
}

/// Signature of a panic: source location + message with numbers erased.
pub fn panic_signature(msg: &str) -> String {
    let mut out = String::new();
    let mut last_hash = false;
    for c in msg.chars().take(160) {
        if c.is_ascii_digit() {
            if !last_hash {
                out.push('#');
                last_hash = true;
            }
        } else {
            out.push(c);
            last_hash = false;
        }
    }
    // keep the file name but drop the line number so that unrelated edits do not change it
    out
}

pub fn msg_type_from_u8(k: u8) -> MessageType {
    use MessageType::*;
    const ALL: [MessageType; 19] = [
        MsgHup, MsgBeat, MsgPropose, MsgAppend, MsgAppendResponse, MsgRequestVote, MsgRequestVoteResponse,
        MsgSnapshot, MsgHeartbeat, MsgHeartbeatResponse, MsgUnreachable, MsgSnapStatus, MsgCheckQuorum,
        MsgTransferLeader, MsgTimeoutNow, MsgReadIndex, MsgReadIndexResp, MsgRequestPreVote, MsgRequestPreVoteResponse,
    ];
    ALL[(k as usize) % ALL.len()]
}
