//! Minimisation: delta debugging (ddmin) over the action list, then argument shrinking.
//! A candidate is accepted only if replay yields a violation of the same check (and the same
//! signature class). Dangling references are no-ops, so every candidate is executable.

use std::time::Instant;

use crate::action::{Action, ClusterCfg};
use crate::world::{Violation, World};

fn test(cluster: &ClusterCfg, actions: &[Action], want: &Violation, focus: Option<&'static str>) -> Option<Violation> {
    let mut w = World::new(cluster.clone());
    w.focus = focus;
    for a in actions {
        if let Err(v) = w.apply(a) {
            return if v.check == want.check && v.sig == want.sig { Some(v) } else { None };
        }
    }
    match w.full_recheck() {
        Err(v) if v.check == want.check && v.sig == want.sig => Some(v),
        _ => None,
    }
}

pub fn minimise(cluster: &ClusterCfg, trace: &[Action], v: &Violation, budget_s: u64, focus: Option<&'static str>) -> (Vec<Action>, Violation) {
    let t0 = Instant::now();
    // cut everything after the violating step
    let mut cur: Vec<Action> = trace[..(v.step as usize).min(trace.len())].to_vec();
    let mut cur_v = match test(cluster, &cur, v, focus) {
        Some(x) => x,
        None => {
            cur = trace.to_vec();
            match test(cluster, &cur, v, focus) {
                Some(x) => x,
                None => return (trace.to_vec(), v.clone()), // not reproducible: report the full trace
            }
        }
    };
    let mut n = 2usize;
    while cur.len() >= 2 && t0.elapsed().as_secs() < budget_s {
        let chunk = (cur.len() + n - 1) / n;
        let mut reduced = false;
        let mut i = 0;
        while i * chunk < cur.len() {
            if t0.elapsed().as_secs() >= budget_s {
                break;
            }
            let lo = i * chunk;
            let hi = ((i + 1) * chunk).min(cur.len());
            let mut cand = Vec::with_capacity(cur.len() - (hi - lo));
            cand.extend_from_slice(&cur[..lo]);
            cand.extend_from_slice(&cur[hi..]);
            if let Some(nv) = test(cluster, &cand, v, focus) {
                // keep only up to the violating step
                cand.truncate((nv.step as usize).min(cand.len()));
                cur = cand;
                cur_v = nv;
                n = (n - 1).max(2);
                reduced = true;
                // restart at same chunk index (content shifted)
            } else {
                i += 1;
            }
        }
        if !reduced {
            if chunk <= 1 {
                break;
            }
            n = (n * 2).min(cur.len());
        }
    }
    // argument shrinking: payload sizes, counts
    let mut i = 0;
    while i < cur.len() && t0.elapsed().as_secs() < budget_s {
        let simpler = match &cur[i] {
            Action::Propose { n, id, size } if *size > 8 => Some(Action::Propose { n: *n, id: *id, size: 8 }),
            Action::Crash { n, keep, torn } if *torn > 0 => Some(Action::Crash { n: *n, keep: *keep, torn: 0 }),
            Action::AppReady { n, mode, skip_fsync, force } if *skip_fsync || *force => {
                Some(Action::AppReady { n: *n, mode: *mode, skip_fsync: false, force: false })
            }
            _ => None,
        };
        if let Some(s) = simpler {
            let mut cand = cur.clone();
            cand[i] = s;
            if let Some(nv) = test(cluster, &cand, v, focus) {
                cur = cand;
                cur_v = nv;
            }
        }
        i += 1;
    }
    (cur, cur_v)
}
