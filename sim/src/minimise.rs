//! Minimisation: delta debugging (ddmin) over the action list, then argument shrinking.
//! A candidate is accepted only if replay yields a violation of the same check (and the same
//! signature class). Dangling references are no-ops, so every candidate is executable.

use std::time::Instant;

use crate::action::{Action, ClusterCfg};
use crate::world::{Violation, World};

fn test(cluster: &ClusterCfg, actions: &[Action], want: &Violation, focus: Option<&'static str>) -> Option<Violation> {
    let mut w = World::new(cluster.clone());
    w.focus = focus;
    for a in actions {
        if let Err(v) = w.apply(a) {
            return if v.check == want.check && v.sig == want.sig { Some(v) } else { None };
        }
    }
    match w.full_recheck() {
        Err(v) if v.check == want.check && v.sig == want.sig => Some(v),
        _ => None,
    }
}

/// Test several candidates on worker threads; returns the candidate with the lowest position in `cands` that
/// still shows the violation (so the result does not depend on thread timing).
fn first_success(cluster: &ClusterCfg, cands: Vec<Vec<Action>>, want: &Violation, focus: Option<&'static str>) -> Option<(usize, Vec<Action>, Violation)> {
    if cands.len() <= 1 {
        return cands.into_iter().next().and_then(|c| test(cluster, &c, want, focus).map(|nv| (0, c, nv)));
    }
    let results: Vec<Option<Violation>> = std::thread::scope(|sc| {
        let hs: Vec<_> = cands
            .iter()
            .map(|c| {
                sc.spawn(move || {
                    crate::world::install_thread_hooks();
                    test(cluster, c, want, focus)
                })
            })
            .collect();
        hs.into_iter().map(|h| h.join().unwrap_or(None)).collect()
    });
    let mut cands = cands;
    for (i, r) in results.into_iter().enumerate() {
        if let Some(nv) = r {
            return Some((i, cands.swap_remove(i), nv));
        }
    }
    None
}

const PAR: usize = 16;

pub fn minimise(cluster: &ClusterCfg, trace: &[Action], v: &Violation, budget_s: u64, focus: Option<&'static str>) -> (Vec<Action>, Violation) {
    let t0 = Instant::now();
    // cut everything after the violating step
    let mut cur: Vec<Action> = trace[..(v.step as usize).min(trace.len())].to_vec();
    let mut cur_v = match test(cluster, &cur, v, focus) {
        Some(x) => x,
        None => {
            cur = trace.to_vec();
            match test(cluster, &cur, v, focus) {
                Some(x) => x,
                None => return (trace.to_vec(), v.clone()), // not reproducible: report the full trace
            }
        }
    };
    // ---- coarse passes first: whole action kinds, whole nodes
    fn kind_of(a: &Action) -> u8 {
        match a {
            Action::Tick { .. } => 1,
            Action::Deliver { .. } => 2,
            Action::Drop { .. } => 3,
            Action::Dup { .. } => 4,
            Action::AppReady { .. } => 5,
            Action::Fsync { .. } => 6,
            Action::Notify { .. } | Action::NotifyOne { .. } => 7,
            Action::Apply { .. } => 8,
            Action::Propose { .. } => 9,
            Action::ProposeBatch { .. } => 10,
            Action::ProposeConf { .. } => 11,
            Action::ReadIndex { .. } => 12,
            Action::Transfer { .. } => 13,
            Action::Campaign { .. } => 14,
            Action::RequestSnapshot { .. } => 15,
            Action::Ping { .. } => 16,
            Action::ReportUnreachable { .. } => 17,
            Action::ReportSnapshot { .. } => 18,
            Action::Compact { .. } | Action::StorageExercise { .. } | Action::ConfExercise { .. } => 19,
            Action::SetKnob { .. } => 20,
            Action::StorageFault { .. } => 21,
            Action::EntriesFetched { .. } => 22,
            Action::Crash { .. } => 23,
            Action::Restart { .. } => 24,
            Action::StartNode { .. } => 25,
            Action::Decommission { .. } => 26,
            Action::Bogus { .. } | Action::StrangerVote { .. } => 27,
            Action::Stabilise { .. } => 28,
            Action::Lockstep { .. } => 29,
        }
    }
    fn node_of(a: &Action) -> Option<u64> {
        Some(match a {
            Action::Tick { n }
            | Action::AppReady { n, .. }
            | Action::Fsync { n, .. }
            | Action::Notify { n }
            | Action::NotifyOne { n }
            | Action::Apply { n, .. }
            | Action::Propose { n, .. }
            | Action::ProposeBatch { n, .. }
            | Action::ProposeConf { n, .. }
            | Action::ReadIndex { n, .. }
            | Action::Transfer { n, .. }
            | Action::Campaign { n }
            | Action::RequestSnapshot { n }
            | Action::Ping { n }
            | Action::ReportUnreachable { n, .. }
            | Action::ReportSnapshot { n, .. }
            | Action::Compact { n, .. }
            | Action::StorageExercise { n, .. }
            | Action::ConfExercise { n, .. }
            | Action::SetKnob { n, .. }
            | Action::StorageFault { n, .. }
            | Action::EntriesFetched { n }
            | Action::Crash { n, .. }
            | Action::Restart { n }
            | Action::StartNode { n }
            | Action::Decommission { n }
            | Action::Bogus { n, .. }
            | Action::StrangerVote { n, .. } => *n,
            Action::Deliver { k } | Action::Drop { k } | Action::Dup { k } => k.t,
            _ => return None,
        })
    }
    for kind in [20u8, 27, 16, 17, 19, 12, 13, 21, 22, 4, 3, 15, 18, 9, 10, 11, 14, 8, 7] {
        if t0.elapsed().as_secs() >= budget_s {
            break;
        }
        if !cur.iter().any(|a| kind_of(a) == kind) {
            continue;
        }
        let cand: Vec<Action> = cur.iter().filter(|a| kind_of(a) != kind).cloned().collect();
        if let Some(nv) = test(cluster, &cand, v, focus) {
            let mut cand = cand;
            cand.truncate((nv.step as usize).min(cand.len()));
            cur = cand;
            cur_v = nv;
        }
    }
    let node_ids: Vec<u64> = cluster.nodes.keys().cloned().collect();
    for nid in node_ids {
        if t0.elapsed().as_secs() >= budget_s {
            break;
        }
        // everything that happens *on* this node (it stays silent: like a node that is down throughout)
        let cand: Vec<Action> = cur.iter().filter(|a| node_of(a) != Some(nid)).cloned().collect();
        if cand.len() == cur.len() {
            continue;
        }
        if let Some(nv) = test(cluster, &cand, v, focus) {
            let mut cand = cand;
            cand.truncate((nv.step as usize).min(cand.len()));
            cur = cand;
            cur_v = nv;
        }
    }
    // ---- (kind, node) pairs: e.g. all ticks of one node, all deliveries to one node
    {
        let node_ids: Vec<u64> = cluster.nodes.keys().cloned().collect();
        for kind in [1u8, 2, 5, 6, 8, 9] {
            for nid in &node_ids {
                if t0.elapsed().as_secs() >= budget_s {
                    break;
                }
                let cand: Vec<Action> = cur.iter().filter(|a| !(kind_of(a) == kind && node_of(a) == Some(*nid))).cloned().collect();
                if cand.len() == cur.len() {
                    continue;
                }
                if let Some(nv) = test(cluster, &cand, v, focus) {
                    let mut cand = cand;
                    cand.truncate((nv.step as usize).min(cand.len()));
                    cur = cand;
                    cur_v = nv;
                }
            }
        }
    }
    let mut n = 2usize;
    while cur.len() >= 2 && t0.elapsed().as_secs() < budget_s {
        let chunk = (cur.len() + n - 1) / n;
        let mut reduced = false;
        let mut i = 0;
        while i * chunk < cur.len() {
            if t0.elapsed().as_secs() >= budget_s {
                break;
            }
            // candidates: remove chunk i, i+1, ... (up to PAR of them), each from the current trace
            let mut cands = Vec::new();
            let mut k = i;
            while k * chunk < cur.len() && cands.len() < PAR {
                let lo = k * chunk;
                let hi = ((k + 1) * chunk).min(cur.len());
                let mut cand = Vec::with_capacity(cur.len() - (hi - lo));
                cand.extend_from_slice(&cur[..lo]);
                cand.extend_from_slice(&cur[hi..]);
                cands.push(cand);
                k += 1;
            }
            let tried = cands.len();
            match first_success(cluster, cands, v, focus) {
                Some((j, mut cand, nv)) => {
                    // keep only up to the violating step
                    cand.truncate((nv.step as usize).min(cand.len()));
                    cur = cand;
                    cur_v = nv;
                    n = (n - 1).max(2);
                    reduced = true;
                    i += j; // chunks before j did not help; content after shifted into position j
                }
                None => i += tried,
            }
        }
        if !reduced {
            if chunk <= 1 {
                break;
            }
            n = (n * 2).min(cur.len());
        }
    }
    // ---- greedy single-action removal, from the end backwards, until a fixpoint or the budget is used up
    let mut changed = true;
    while changed && t0.elapsed().as_secs() < budget_s {
        changed = false;
        let mut i = cur.len();
        while i > 0 && t0.elapsed().as_secs() < budget_s {
            let mut cands = Vec::new();
            let mut idxs = Vec::new();
            let mut k = i;
            while k > 0 && cands.len() < PAR {
                k -= 1;
                if k >= cur.len() {
                    continue;
                }
                let mut cand = cur.clone();
                cand.remove(k);
                cands.push(cand);
                idxs.push(k);
            }
            if cands.is_empty() {
                break;
            }
            match first_success(cluster, cands, v, focus) {
                Some((j, mut cand, nv)) => {
                    cand.truncate((nv.step as usize).min(cand.len()));
                    cur = cand;
                    cur_v = nv;
                    changed = true;
                    i = idxs[j].min(cur.len());
                }
                None => i = *idxs.last().unwrap(),
            }
        }
    }
    // argument shrinking: payload sizes, counts
    let mut i = 0;
    while i < cur.len() && t0.elapsed().as_secs() < budget_s {
        let simpler = match &cur[i] {
            Action::Propose { n, id, size } if *size > 8 => Some(Action::Propose { n: *n, id: *id, size: 8 }),
            Action::Crash { n, keep, torn } if *torn > 0 => Some(Action::Crash { n: *n, keep: *keep, torn: 0 }),
            Action::AppReady { n, mode, skip_fsync, force } if *skip_fsync || *force => {
                Some(Action::AppReady { n: *n, mode: *mode, skip_fsync: false, force: false })
            }
            _ => None,
        };
        if let Some(s) = simpler {
            let mut cand = cur.clone();
            cand[i] = s;
            if let Some(nv) = test(cluster, &cand, v, focus) {
                cur = cand;
                cur_v = nv;
            }
        }
        i += 1;
    }
    (cur, cur_v)
}
