//! xoshiro256** with splitmix64 seeding. Own implementation so that no crate upgrade can
//! change the streams: one integer (VERIF_SEED) decides everything.

#[derive(Clone, Debug)]
pub struct Prng {
    s: [u64; 4],
}

pub fn splitmix64(x: &mut u64) -> u64 {
    *x = x.wrapping_add(0x9E37_79B9_7F4A_7C15);
    let mut z = *x;
    z = (z ^ (z >> 30)).wrapping_mul(0xBF58_476D_1CE4_E5B9);
    z = (z ^ (z >> 27)).wrapping_mul(0x94D0_49BB_1331_11EB);
    z ^ (z >> 31)
}

/// Mixes two integers into one seed (used for run seeds and for the election-timeout hash).
pub fn mix(a: u64, b: u64) -> u64 {
    let mut x = a ^ b.wrapping_mul(0xD6E8_FEB8_6659_FD93).rotate_left(29);
    let r = splitmix64(&mut x);
    r ^ splitmix64(&mut x)
}

pub fn mix3(a: u64, b: u64, c: u64) -> u64 {
    mix(mix(a, b), c)
}

impl Prng {
    pub fn new(seed: u64) -> Prng {
        let mut x = seed;
        let s = [
            splitmix64(&mut x),
            splitmix64(&mut x),
            splitmix64(&mut x),
            splitmix64(&mut x),
        ];
        Prng { s }
    }

    pub fn next_u64(&mut self) -> u64 {
        let result = self.s[1].wrapping_mul(5).rotate_left(7).wrapping_mul(9);
        let t = self.s[1] << 17;
        self.s[2] ^= self.s[0];
        self.s[3] ^= self.s[1];
        self.s[1] ^= self.s[2];
        self.s[0] ^= self.s[3];
        self.s[2] ^= t;
        self.s[3] = self.s[3].rotate_left(45);
        result
    }

    /// Uniform in [0, n). n must be > 0.
    pub fn below(&mut self, n: u64) -> u64 {
        debug_assert!(n > 0);
        // multiply-shift; bias is negligible for our n
        ((self.next_u64() as u128 * n as u128) >> 64) as u64
    }

    /// Uniform in [lo, hi] inclusive.
    pub fn range(&mut self, lo: u64, hi: u64) -> u64 {
        debug_assert!(lo <= hi);
        lo + self.below(hi - lo + 1)
    }

    /// True with probability num/den.
    pub fn chance(&mut self, num: u64, den: u64) -> bool {
        self.below(den) < num
    }

    /// True with probability p (per mille).
    pub fn pm(&mut self, per_mille: u64) -> bool {
        self.below(1000) < per_mille
    }

    pub fn pick<'a, T>(&mut self, xs: &'a [T]) -> &'a T {
        &xs[self.below(xs.len() as u64) as usize]
    }

    /// Weighted choice: returns the index of the chosen weight. Sum must be > 0.
    pub fn weighted(&mut self, ws: &[u64]) -> usize {
        let sum: u64 = ws.iter().sum();
        debug_assert!(sum > 0);
        let mut x = self.below(sum);
        for (i, w) in ws.iter().enumerate() {
            if x < *w {
                return i;
            }
            x -= *w;
        }
        ws.len() - 1
    }

    pub fn shuffle<T>(&mut self, xs: &mut [T]) {
        for i in (1..xs.len()).rev() {
            let j = self.below(i as u64 + 1) as usize;
            xs.swap(i, j);
        }
    }
}

/// Small 64-bit hasher for digests of entries / traces (FNV-1a folded through splitmix).
#[derive(Clone, Copy)]
pub struct Digest(pub u64);

impl Digest {
    pub fn new() -> Digest {
        Digest(0xcbf2_9ce4_8422_2325)
    }
    pub fn bytes(&mut self, b: &[u8]) -> &mut Self {
        let mut h = self.0;
        for x in b {
            h ^= *x as u64;
            h = h.wrapping_mul(0x0000_0100_0000_01B3);
        }
        // length separator
        h ^= b.len() as u64;
        h = h.wrapping_mul(0x0000_0100_0000_01B3);
        self.0 = h;
        self
    }
    pub fn u64(&mut self, v: u64) -> &mut Self {
        let mut x = self.0 ^ v.wrapping_mul(0x9E37_79B9_7F4A_7C15);
        self.0 = splitmix64(&mut x);
        self
    }
    pub fn finish(&self) -> u64 {
        let mut x = self.0;
        splitmix64(&mut x)
    }
}
