//! Ghost state kept by the World, never visible to the library.

use std::collections::{BTreeMap, BTreeSet};

use fxhash::FxHashMap;
use raft::eraftpb::ConfState;

use crate::action::{ClusterCfg, NodeId};
use crate::prng::mix;
use crate::refmodel::RefConf;
use crate::world::{chain_hash, ConfShape};

#[derive(Clone, Debug)]
pub struct ClEnt {
    pub term: u64,
    pub digest: u64,
    pub is_conf: bool,
    /// term of the node that first reported the index committed (>= the committing leader's term)
    pub commit_term: u64,
    pub reporter: NodeId,
    pub step: u64,
}

pub struct ReadReq {
    pub bound: u64,
    pub step: u64,
    pub answered: u32,
}

pub struct Ghost {
    /// index of the initial snapshot point; CL starts at base + 1
    pub base: u64,
    pub base_term: u64,
    /// cl[k] describes index base + 1 + k (contiguous, first writer wins)
    pub cl: Vec<ClEnt>,
    /// h[k] = state-machine hash chain after applying index base + k
    pub h: Vec<u64>,
    /// every log entry ever observed in any node's log: (index, term) -> (digest, term of index-1 or u64::MAX)
    pub reg: FxHashMap<(u64, u64), (u64, u64)>,
    pub leader_of: BTreeMap<u64, NodeId>,
    /// (voter, term) -> candidate, fed by released grants / vote requests / leader traffic
    pub granted: BTreeMap<(NodeId, u64), NodeId>,
    /// largest term a node has released in any promise-carrying message
    pub max_term_released: BTreeMap<NodeId, u64>,
    pub max_leader_commit: u64,
    pub max_commit_any: u64,
    pub reads: BTreeMap<(NodeId, u64), ReadReq>,
    /// configuration after applying index i, as computed by the first node that applied i (conf entries only)
    pub conf_at: BTreeMap<u64, ConfShape>,
    /// reference configuration after each committed conf entry (refmodel R folded over CL)
    pub ref_conf: BTreeMap<u64, RefConf>,
    pub ref_conf_initial: RefConf,
    pub proposals: BTreeSet<u64>,
    /// terms in which a leader was elected by a node matching the S3 history precondition
    pub tainted_terms: BTreeSet<u64>,
    pub tainted_nodes: BTreeSet<NodeId>,
    /// terms won by a node whose own log held >= 2 membership entries beyond its applied index (its active
    /// configuration was at least two changes behind its log when it campaigned)
    pub stale_conf_elections: BTreeSet<u64>,
    /// (term, highest index) each node has acknowledged in a released MsgAppendResponse of that term
    pub acked: BTreeMap<NodeId, (u64, u64)>,
    /// highest index a node acknowledged per term: (node, term) -> index
    pub acked_in_term: BTreeMap<(NodeId, u64), u64>,
    /// forwarded read requests (receiver, ctx) already delivered once; receivers that got a duplicate
    pub read_forward_seen: BTreeSet<(NodeId, Vec<u8>)>,
    pub dup_read_at: BTreeSet<NodeId>,
}

impl Ghost {
    pub fn new(cfg: &ClusterCfg, cs: &ConfState) -> Ghost {
        let h0 = if cfg.initial_index > 0 { mix(cfg.initial_index, cfg.initial_term) } else { 0 };
        Ghost {
            base: cfg.initial_index,
            base_term: cfg.initial_term,
            cl: Vec::new(),
            h: vec![h0],
            reg: FxHashMap::default(),
            leader_of: BTreeMap::new(),
            granted: BTreeMap::new(),
            max_term_released: BTreeMap::new(),
            max_leader_commit: cfg.initial_index,
            max_commit_any: cfg.initial_index,
            reads: BTreeMap::new(),
            conf_at: BTreeMap::new(),
            ref_conf: BTreeMap::new(),
            ref_conf_initial: RefConf::from_shape(&ConfShape::from_cs(cs)),
            proposals: BTreeSet::new(),
            tainted_terms: BTreeSet::new(),
            tainted_nodes: BTreeSet::new(),
            stale_conf_elections: BTreeSet::new(),
            acked: BTreeMap::new(),
            acked_in_term: BTreeMap::new(),
            read_forward_seen: BTreeSet::new(),
            dup_read_at: BTreeSet::new(),
        }
    }

    pub fn note_proposal(&mut self, id: u64) {
        self.proposals.insert(id);
    }

    pub fn cl_max(&self) -> u64 {
        self.base + self.cl.len() as u64
    }

    pub fn cl_get(&self, i: u64) -> Option<&ClEnt> {
        if i <= self.base || i > self.cl_max() {
            return None;
        }
        Some(&self.cl[(i - self.base - 1) as usize])
    }

    /// Term of the committed entry at i (also for the base point).
    pub fn cl_term(&self, i: u64) -> Option<u64> {
        if i == self.base {
            return Some(self.base_term);
        }
        self.cl_get(i).map(|e| e.term)
    }

    pub fn h_at(&self, i: u64) -> Option<u64> {
        if i < self.base || i > self.cl_max() {
            return None;
        }
        Some(self.h[(i - self.base) as usize])
    }

    pub fn cl_push(&mut self, e: ClEnt) {
        let i = self.cl_max() + 1;
        let prev = *self.h.last().unwrap();
        self.h.push(chain_hash(prev, i, e.term, e.digest));
        self.cl.push(e);
    }

    /// Reference configuration in force after applying exactly the prefix <= k.
    pub fn ref_conf_at(&self, k: u64) -> &RefConf {
        match self.ref_conf.range(..=k).next_back() {
            Some((_, c)) => c,
            None => &self.ref_conf_initial,
        }
    }
}
