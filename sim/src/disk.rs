//! Simulated disk: volatile layer = the real `MemStorage` (what raft reads), an ordered queue
//! of not-yet-durable writes, and a plain-data durable image (what survives a crash).
//! `StableModel` is an independent sequence model of the volatile layer used as the C19 oracle
//! and as the "stable" part of every node's log shadow.

use std::cell::RefCell;
use std::collections::VecDeque;
use std::rc::Rc;

use raft::eraftpb::{ConfState, Entry, HardState, Snapshot};
use raft::storage::MemStorage;
use raft::{Error, GetEntriesContext, RaftState, Storage, StorageError};

/// State of the replicated state machine of one node (also the content of a snapshot).
#[derive(Clone, Debug, PartialEq, Default)]
pub struct AppState {
    pub applied: u64,
    pub applied_term: u64,
    /// Hash chain over all applied entries (index, term, type, payload digest).
    pub hash: u64,
    pub cs: ConfState,
}

impl AppState {
    pub fn to_bytes(&self) -> Vec<u8> {
        let mut v = Vec::with_capacity(24);
        v.extend_from_slice(&self.applied.to_le_bytes());
        v.extend_from_slice(&self.applied_term.to_le_bytes());
        v.extend_from_slice(&self.hash.to_le_bytes());
        v
    }
    pub fn from_snapshot(s: &Snapshot) -> AppState {
        let d: &[u8] = s.get_data();
        let g = |i: usize| -> u64 {
            if d.len() >= (i + 1) * 8 {
                u64::from_le_bytes(d[i * 8..(i + 1) * 8].try_into().unwrap())
            } else {
                0
            }
        };
        AppState {
            applied: s.get_metadata().index,
            applied_term: s.get_metadata().term,
            hash: g(2),
            cs: s.get_metadata().get_conf_state().clone(),
        }
    }
    pub fn to_snapshot(&self) -> Snapshot {
        let mut s = Snapshot::default();
        s.set_data(self.to_bytes().into());
        let m = s.mut_metadata();
        m.index = self.applied;
        m.term = self.applied_term;
        m.set_conf_state(self.cs.clone());
        s
    }
}

pub struct StoreCtl {
    /// one-shot / window: next snapshot() returns SnapshotTemporarilyUnavailable while true
    pub snap_unavailable: bool,
    /// What `Storage::snapshot` serves: the application's applied state.
    pub snap_src: AppState,
    pub snapshots_served: u64,
    pub snapshots_refused: u64,
}

#[derive(Clone)]
pub struct SimStorage {
    pub mem: MemStorage,
    pub ctl: Rc<RefCell<StoreCtl>>,
}

impl SimStorage {
    pub fn new(mem: MemStorage, src: AppState) -> SimStorage {
        SimStorage {
            mem,
            ctl: Rc::new(RefCell::new(StoreCtl {
                snap_unavailable: false,
                snap_src: src,
                snapshots_served: 0,
                snapshots_refused: 0,
            })),
        }
    }
}

impl Storage for SimStorage {
    fn initial_state(&self) -> raft::Result<RaftState> {
        self.mem.initial_state()
    }
    fn entries(
        &self,
        low: u64,
        high: u64,
        max_size: impl Into<Option<u64>>,
        context: GetEntriesContext,
    ) -> raft::Result<Vec<Entry>> {
        self.mem.entries(low, high, max_size, context)
    }
    fn term(&self, idx: u64) -> raft::Result<u64> {
        self.mem.term(idx)
    }
    fn first_index(&self) -> raft::Result<u64> {
        self.mem.first_index()
    }
    fn last_index(&self) -> raft::Result<u64> {
        self.mem.last_index()
    }
    fn snapshot(&self, request_index: u64, _to: u64) -> raft::Result<Snapshot> {
        // MemStorage::snapshot() builds at hard_state.commit, which its own comment documents
        // as wrong under asynchronous apply. A contract-abiding application serves its applied
        // state; if that is behind the requested index it is "temporarily unavailable".
        let mut ctl = self.ctl.borrow_mut();
        if ctl.snap_unavailable || ctl.snap_src.applied == 0 || ctl.snap_src.applied < request_index
        {
            ctl.snapshots_refused += 1;
            return Err(Error::Store(StorageError::SnapshotTemporarilyUnavailable));
        }
        ctl.snapshots_served += 1;
        Ok(ctl.snap_src.to_snapshot())
    }
}

#[derive(Clone, Debug)]
pub enum WriteItem {
    Snapshot(Snapshot),
    Entries(Vec<Entry>),
    HardState(HardState),
    AppCkpt(AppState),
    /// compact to `idx` (entries < idx are dropped); term of idx-1 is retained as boundary
    Compact(u64, u64),
}

/// What survives a crash. Plain data.
#[derive(Clone, Debug, Default)]
pub struct Durable {
    pub trunc_index: u64,
    pub trunc_term: u64,
    /// contiguous, first entry has index trunc_index + 1
    pub entries: Vec<Entry>,
    pub hs: HardState,
    pub app: AppState,
}

impl Durable {
    pub fn last_index(&self) -> u64 {
        self.trunc_index + self.entries.len() as u64
    }
    pub fn term(&self, idx: u64) -> Option<u64> {
        if idx == self.trunc_index {
            return Some(self.trunc_term);
        }
        if idx < self.trunc_index || idx > self.last_index() {
            return None;
        }
        Some(self.entries[(idx - self.trunc_index - 1) as usize].term)
    }
    pub fn entry(&self, idx: u64) -> Option<&Entry> {
        if idx <= self.trunc_index || idx > self.last_index() {
            return None;
        }
        Some(&self.entries[(idx - self.trunc_index - 1) as usize])
    }
    /// true if the durable image holds (idx, term) as an entry or under its truncation point
    pub fn covers(&self, idx: u64, term: u64) -> bool {
        if idx < self.trunc_index {
            return true; // covered by a durable snapshot / compaction of applied entries
        }
        self.term(idx) == Some(term)
    }
    pub fn apply(&mut self, w: &WriteItem) {
        match w {
            WriteItem::Snapshot(s) => {
                let m = s.get_metadata();
                self.trunc_index = m.index;
                self.trunc_term = m.term;
                self.entries.clear();
                let a = AppState::from_snapshot(s);
                if a.applied >= self.app.applied {
                    self.app = a;
                }
            }
            WriteItem::Entries(ents) => {
                if ents.is_empty() {
                    return;
                }
                let first = ents[0].index;
                assert!(
                    first > self.trunc_index && first <= self.last_index() + 1,
                    "HARNESS: durable append gap: first {} trunc {} last {}",
                    first,
                    self.trunc_index,
                    self.last_index()
                );
                self.entries.truncate((first - self.trunc_index - 1) as usize);
                self.entries.extend_from_slice(ents);
            }
            WriteItem::HardState(hs) => self.hs = hs.clone(),
            WriteItem::AppCkpt(a) => {
                if a.applied >= self.app.applied {
                    self.app = a.clone();
                }
            }
            WriteItem::Compact(idx, prev_term) => {
                if *idx > self.trunc_index + 1 {
                    let drop = (*idx - self.trunc_index - 1) as usize;
                    assert!(drop <= self.entries.len(), "HARNESS: durable compact beyond log");
                    self.entries.drain(..drop);
                    self.trunc_index = *idx - 1;
                    self.trunc_term = *prev_term;
                }
            }
        }
    }
}

/// Independent sequence model of the volatile storage layer (C19 oracle).
#[derive(Clone, Debug, Default)]
pub struct StableModel {
    /// index/term of the last applied snapshot (MemStorage keeps the term only for this point)
    pub snap_index: u64,
    pub snap_term: u64,
    /// entries[0].index == first
    pub first: u64,
    pub entries: Vec<Entry>,
    pub hs: HardState,
    pub cs: ConfState,
}

#[derive(Debug, PartialEq)]
pub enum ModelErr {
    Compacted,
    Unavailable,
}

impl StableModel {
    pub fn new(cs: ConfState) -> StableModel {
        StableModel { snap_index: 0, snap_term: 0, first: 1, entries: vec![], hs: HardState::default(), cs }
    }
    pub fn first_index(&self) -> u64 {
        self.first
    }
    pub fn last_index(&self) -> u64 {
        self.first + self.entries.len() as u64 - 1
    }
    pub fn term(&self, idx: u64) -> Result<u64, ModelErr> {
        if idx == self.snap_index {
            return Ok(self.snap_term);
        }
        if idx < self.first {
            return Err(ModelErr::Compacted);
        }
        if idx > self.last_index() {
            return Err(ModelErr::Unavailable);
        }
        Ok(self.entries[(idx - self.first) as usize].term)
    }
    pub fn entry(&self, idx: u64) -> Option<&Entry> {
        if idx < self.first || idx > self.last_index() {
            return None;
        }
        Some(&self.entries[(idx - self.first) as usize])
    }
    pub fn append(&mut self, ents: &[Entry]) {
        if ents.is_empty() {
            return;
        }
        let at = ents[0].index;
        assert!(at >= self.first && at <= self.last_index() + 1, "HARNESS: model append gap");
        self.entries.truncate((at - self.first) as usize);
        self.entries.extend_from_slice(ents);
    }
    pub fn compact(&mut self, idx: u64) {
        if idx <= self.first {
            return;
        }
        assert!(idx <= self.last_index(), "HARNESS: model compacts everything");
        // Storage::term: "The term of the entry before first_index is retained for matching purpose"
        let boundary = self.entries[(idx - 1 - self.first) as usize].term;
        self.entries.drain(..(idx - self.first) as usize);
        self.first = idx;
        self.snap_index = idx - 1;
        self.snap_term = boundary;
    }
    pub fn apply_snapshot(&mut self, s: &Snapshot) {
        let m = s.get_metadata();
        self.snap_index = m.index;
        self.snap_term = m.term;
        self.first = m.index + 1;
        self.entries.clear();
        self.hs.term = std::cmp::max(self.hs.term, m.term);
        self.hs.commit = m.index;
        self.cs = m.get_conf_state().clone();
    }
}

pub struct SimDisk {
    pub store: SimStorage,
    pub model: StableModel,
    pub wq: VecDeque<WriteItem>,
    /// absolute sequence number of wq[0]
    pub wq_base: u64,
    pub durable: Durable,
    pub initial_cs: ConfState,
}

impl SimDisk {
    pub fn new(cs: ConfState, initial_index: u64, initial_term: u64) -> SimDisk {
        let mem = MemStorage::new();
        let mut model = StableModel::new(cs.clone());
        let mut durable = Durable::default();
        let mut app = AppState { cs: cs.clone(), ..Default::default() };
        if initial_index > 0 {
            app.applied = initial_index;
            app.applied_term = initial_term;
            app.hash = crate::prng::mix(initial_index, initial_term);
            let snap = app.to_snapshot();
            mem.wl().apply_snapshot(snap.clone()).unwrap();
            model.apply_snapshot(&snap);
            durable.apply(&WriteItem::Snapshot(snap));
            let mut hs = HardState::default();
            hs.term = initial_term;
            hs.commit = initial_index;
            mem.wl().set_hardstate(hs.clone());
            model.hs = hs.clone();
            durable.hs = hs;
        } else {
            mem.wl().set_conf_state(cs.clone());
        }
        durable.app = app.clone();
        SimDisk {
            store: SimStorage::new(mem, app),
            model,
            wq: VecDeque::new(),
            wq_base: 0,
            durable,
            initial_cs: cs,
        }
    }

    pub fn wq_end(&self) -> u64 {
        self.wq_base + self.wq.len() as u64
    }

    pub fn queue(&mut self, w: WriteItem) {
        self.wq.push_back(w);
    }

    /// Make the first `count` queued writes durable.
    pub fn fsync(&mut self, count: usize) -> usize {
        let k = count.min(self.wq.len());
        for _ in 0..k {
            let w = self.wq.pop_front().unwrap();
            self.durable.apply(&w);
            self.wq_base += 1;
        }
        k
    }

    /// Crash: keep a prefix of the queue (+ torn prefix of the next entries batch), drop the rest
    /// and the volatile layer. Returns (kept, lost, torn_applied).
    pub fn crash(&mut self, keep: usize, torn: usize) -> (usize, usize, usize) {
        let kept = self.fsync(keep);
        let mut torn_applied = 0;
        if torn > 0 {
            if let Some(WriteItem::Entries(ents)) = self.wq.front() {
                let t = torn.min(ents.len().saturating_sub(1));
                if t > 0 {
                    let part = ents[..t].to_vec();
                    self.durable.apply(&WriteItem::Entries(part));
                    torn_applied = t;
                }
            }
        }
        let lost = self.wq.len();
        self.wq_base += lost as u64;
        self.wq.clear();
        (kept, lost, torn_applied)
    }

    /// Rebuild the volatile layer from the durable image with the real MemStorage mutators.
    /// Returns the application state to restart from.
    pub fn recover(&mut self) -> AppState {
        let d = &self.durable;
        let mem = MemStorage::new();
        let mut model = StableModel::new(self.initial_cs.clone());
        let app = d.app.clone();
        if d.trunc_index > 0 {
            let mut s = Snapshot::default();
            let m = s.mut_metadata();
            m.index = d.trunc_index;
            m.term = d.trunc_term;
            m.set_conf_state(app.cs.clone());
            mem.wl().apply_snapshot(s.clone()).unwrap();
            model.apply_snapshot(&s);
        }
        mem.wl().append(&d.entries).unwrap();
        model.append(&d.entries);
        let mut hs = d.hs.clone();
        // A durable snapshot/compaction point implies everything up to it is committed
        // (the snapshot write precedes the HardState write of the same Ready).
        if hs.commit < d.trunc_index {
            hs.commit = d.trunc_index;
        }
        if hs.commit < app.applied {
            panic!("HARNESS: durable applied {} > durable commit {}", app.applied, hs.commit);
        }
        mem.wl().set_hardstate(hs.clone());
        model.hs = hs;
        mem.wl().set_conf_state(app.cs.clone());
        model.cs = app.cs.clone();
        self.store = SimStorage::new(mem, app.clone());
        self.model = model;
        app
    }

    /// C19 differential: compare the real MemStorage with the sequence model.
    /// `probe` perturbs the sampled ranges deterministically.
    pub fn differential(&self, probe: u64) -> Result<u64, String> {
        differential_of(&self.store.mem, &self.model, probe)
    }
}

/// C19 differential between a MemStorage and the sequence model (used for the simulated disks and for the
/// what-if operation sequences of `exercise`).
pub fn differential_of(mem: &MemStorage, m: &StableModel, probe: u64) -> Result<u64, String> {
    {
        let mut compared = 0u64;
        let fi = mem.first_index().map_err(|e| format!("first_index err {e:?}"))?;
        let li = mem.last_index().map_err(|e| format!("last_index err {e:?}"))?;
        if fi != m.first_index() {
            return Err(format!("first_index {} model {}", fi, m.first_index()));
        }
        if li != m.last_index() {
            return Err(format!("last_index {} model {}", li, m.last_index()));
        }
        compared += 2;
        let lo = fi.saturating_sub(2);
        for i in lo..=li + 2 {
            let got = mem.term(i);
            let want = m.term(i);
            let ok = match (&got, &want) {
                (Ok(a), Ok(b)) => a == b,
                (Err(Error::Store(StorageError::Compacted)), Err(ModelErr::Compacted)) => true,
                (Err(Error::Store(StorageError::Unavailable)), Err(ModelErr::Unavailable)) => true,
                _ => false,
            };
            if !ok {
                return Err(format!("term({i}) = {got:?}, model {want:?}"));
            }
            compared += 1;
        }
        // initial_state
        let st = mem.initial_state().map_err(|e| format!("initial_state err {e:?}"))?;
        if st.hard_state != m.hs {
            return Err(format!("hard_state {:?} model {:?}", st.hard_state, m.hs));
        }
        if !raft_proto::conf_state_eq(&st.conf_state, &m.cs) {
            return Err(format!("conf_state {:?} model {:?}", st.conf_state, m.cs));
        }
        compared += 1;
        // entries(lo, hi, max)
        if li >= fi {
            let n = li - fi + 1;
            let mut p = probe;
            for k in 0..4u64 {
                let a = fi + crate::prng::splitmix64(&mut p) % n;
                let b = a + 1 + crate::prng::splitmix64(&mut p) % (li + 1 - a);
                let sizes: [Option<u64>; 4] = [None, Some(0), Some(1 + crate::prng::splitmix64(&mut p) % 200), Some(u64::MAX)];
                let max = sizes[(k % 4) as usize];
                let got = mem
                    .entries(a, b, max, GetEntriesContext::empty(false))
                    .map_err(|e| format!("entries({a},{b}) err {e:?}"))?;
                let full: Vec<Entry> = (a..b).map(|i| m.entry(i).unwrap().clone()).collect();
                if got.is_empty() {
                    return Err(format!("entries({a},{b},{max:?}) returned nothing"));
                }
                if got.len() > full.len() || got[..] != full[..got.len()] {
                    return Err(format!("entries({a},{b},{max:?}) is not a prefix of the model range"));
                }
                if let Some(mx) = max {
                    if mx != u64::MAX {
                        use protobuf::Message as _;
                        let sz = |es: &[Entry]| -> u64 { es.iter().map(|e| e.compute_size() as u64).sum() };
                        if got.len() > 1 && sz(&got) > mx {
                            return Err(format!("entries({a},{b},{mx}) exceeds the limit with {} entries", got.len()));
                        }
                        if got.len() < full.len() && sz(&full[..got.len() + 1]) <= mx {
                            return Err(format!("entries({a},{b},{mx}) not maximal: {} of {}", got.len(), full.len()));
                        }
                    } else if got.len() != full.len() {
                        return Err(format!("entries({a},{b},NO_LIMIT) truncated"));
                    }
                } else if got.len() != full.len() {
                    return Err(format!("entries({a},{b},None) truncated"));
                }
                compared += 1;
            }
            // below first_index => Compacted
            if fi > 1 {
                match mem.entries(fi - 1, fi, None, GetEntriesContext::empty(false)) {
                    Err(Error::Store(StorageError::Compacted)) => {}
                    other => return Err(format!("entries({},{}) below first_index = {:?}", fi - 1, fi, other.map(|v| v.len()))),
                }
                compared += 1;
            }
        }
        // snapshot(request_index): built at the stored commit index, with that index's term and the stored
        // configuration; its index is never below the requested one
        let commit = m.hs.commit;
        if commit >= m.snap_index && commit <= li && (commit >= fi || commit == m.snap_index) {
            let mut p = probe ^ 0x5a5a;
            for req in [0u64, commit, commit + 1 + crate::prng::splitmix64(&mut p) % 3] {
                match mem.snapshot(req, 0) {
                    Ok(s) => {
                        let md = s.get_metadata();
                        let want_term = m.term(commit).ok();
                        if md.index != commit.max(req) {
                            return Err(format!("snapshot({req}) has index {}, expected {}", md.index, commit.max(req)));
                        }
                        if Some(md.term) != want_term {
                            return Err(format!("snapshot({req}) has term {}, the commit index {commit} has term {:?}", md.term, want_term));
                        }
                        if !raft_proto::conf_state_eq(md.get_conf_state(), &m.cs) {
                            return Err(format!("snapshot({req}) carries configuration {:?}, stored {:?}", md.get_conf_state(), m.cs));
                        }
                        compared += 1;
                    }
                    Err(e) => return Err(format!("snapshot({req}) failed: {e:?}")),
                }
            }
        }
        Ok(compared)
    }
}

/// What-if operation sequences (C19 quantifies over all sequences of MemStorageCore mutations permitted by their
/// documented preconditions; the simulated application only issues the ones a Ready loop needs). A scratch
/// MemStorage is rebuilt from the model of a state the simulation reached, then a seeded sequence of legal
/// mutations is applied to both and compared after every step. Nothing of it touches the simulated node.
pub fn exercise(model: &StableModel, seed: u64) -> Result<u64, String> {
    use crate::prng::splitmix64;
    let mut p = seed;
    let mem = MemStorage::new();
    let mut m = StableModel::new(model.cs.clone());
    if model.snap_index > 0 {
        let mut s = Snapshot::default();
        let md = s.mut_metadata();
        md.index = model.snap_index;
        md.term = model.snap_term;
        md.set_conf_state(model.cs.clone());
        mem.wl().apply_snapshot(s.clone()).map_err(|e| format!("scratch apply_snapshot: {e:?}"))?;
        m.apply_snapshot(&s);
    }
    mem.wl().append(&model.entries).map_err(|e| format!("scratch append: {e:?}"))?;
    m.append(&model.entries);
    mem.wl().set_hardstate(model.hs.clone());
    m.hs = model.hs.clone();
    mem.wl().set_conf_state(model.cs.clone());
    m.cs = model.cs.clone();
    let mut compared = differential_of(&mem, &m, splitmix64(&mut p)).map_err(|e| format!("rebuilt from the model: {e}"))?;
    let steps = 3 + splitmix64(&mut p) % 8;
    let mut log: Vec<String> = Vec::new();
    for _ in 0..steps {
        let first = m.first_index();
        let last = m.last_index();
        let last_term = m.term(last).unwrap_or(m.snap_term).max(m.hs.term);
        match splitmix64(&mut p) % 6 {
            0 => {
                // append, possibly overwriting an uncommitted tail
                let lo = first.max(m.hs.commit + 1);
                if lo > last + 1 {
                    continue;
                }
                let at = lo + splitmix64(&mut p) % (last + 2 - lo);
                if at < last && splitmix64(&mut p) % 3 == 0 {
                    // a shorter overwriting append that repeats what is stored (same terms, same payloads): the log
                    // still ends at the last appended entry afterwards
                    let k = 1 + splitmix64(&mut p) % (last - at);
                    let ents: Vec<Entry> = (at..at + k).map(|i| m.entry(i).unwrap().clone()).collect();
                    log.push(format!("append-same[{}..{}]", at, at + k - 1));
                    mem.wl().append(&ents).map_err(|e| format!("{log:?}: append failed {e:?}"))?;
                    m.append(&ents);
                    let probe = splitmix64(&mut p);
                    compared += differential_of(&mem, &m, probe).map_err(|e| format!("after {log:?}: {e}"))?;
                    continue;
                }
                let k = 1 + splitmix64(&mut p) % 4;
                let mut term = if at > first { m.term(at - 1).unwrap_or(last_term) } else { m.snap_term }.max(1);
                if at <= last {
                    term = term.max(last_term) + 1; // a conflicting tail comes from a newer leader
                }
                let mut ents = Vec::new();
                for j in 0..k {
                    if splitmix64(&mut p) % 3 == 0 {
                        term += 1;
                    }
                    let mut e = Entry::default();
                    e.index = at + j;
                    e.term = term;
                    e.data = vec![(splitmix64(&mut p) % 251) as u8; (splitmix64(&mut p) % 40) as usize].into();
                    ents.push(e);
                }
                log.push(format!("append[{}..{}] t{}", at, at + k - 1, term));
                mem.wl().append(&ents).map_err(|e| format!("{log:?}: append failed {e:?}"))?;
                m.append(&ents);
            }
            1 => {
                // compact anywhere up to last + 1
                if last + 1 <= first {
                    continue;
                }
                let idx = first + splitmix64(&mut p) % (last + 2 - first);
                log.push(format!("compact({idx})"));
                mem.wl().compact(idx).map_err(|e| format!("{log:?}: compact failed {e:?}"))?;
                if idx > first {
                    let boundary = m.entries[(idx - 1 - first) as usize].term;
                    m.entries.drain(..(idx - first) as usize);
                    m.first = idx;
                    m.snap_index = idx - 1;
                    m.snap_term = boundary;
                }
            }
            2 => {
                // apply a snapshot anywhere from below first_index to beyond the log
                let lo = first.saturating_sub(2);
                let idx = lo + splitmix64(&mut p) % (last + 4 - lo);
                let term = m.term(idx).unwrap_or(last_term + splitmix64(&mut p) % 2).max(1);
                let mut s = Snapshot::default();
                let md = s.mut_metadata();
                md.index = idx;
                md.term = term;
                let mut cs = m.cs.clone();
                if splitmix64(&mut p) % 2 == 0 {
                    cs.mut_learners().push(50 + splitmix64(&mut p) % 5);
                }
                md.set_conf_state(cs);
                log.push(format!("apply_snapshot({idx}, t{term})"));
                let r = mem.wl().apply_snapshot(s.clone());
                if idx < first {
                    match r {
                        Err(Error::Store(StorageError::SnapshotOutOfDate)) => {}
                        other => return Err(format!("{log:?}: snapshot below first_index {first} gave {other:?}")),
                    }
                } else {
                    r.map_err(|e| format!("{log:?}: apply_snapshot failed {e:?}"))?;
                    m.apply_snapshot(&s);
                }
            }
            3 => {
                // commit_to an existing entry
                if last < first {
                    continue;
                }
                let idx = first + splitmix64(&mut p) % (last + 1 - first);
                log.push(format!("commit_to({idx})"));
                mem.wl().commit_to(idx).map_err(|e| format!("{log:?}: commit_to failed {e:?}"))?;
                m.hs.commit = idx;
                m.hs.term = m.term(idx).unwrap();
            }
            4 => {
                let mut hs = m.hs.clone();
                hs.term += splitmix64(&mut p) % 2;
                hs.vote = splitmix64(&mut p) % 4;
                let lo = m.snap_index.max(hs.commit.min(last));
                hs.commit = lo + splitmix64(&mut p) % (last + 1 - lo).max(1);
                log.push(format!("set_hardstate(t{} v{} c{})", hs.term, hs.vote, hs.commit));
                mem.wl().set_hardstate(hs.clone());
                m.hs = hs;
            }
            _ => {
                let mut cs = m.cs.clone();
                cs.mut_learners().push(60 + splitmix64(&mut p) % 5);
                log.push("set_conf_state".into());
                mem.wl().set_conf_state(cs.clone());
                m.cs = cs;
            }
        }
        let probe = splitmix64(&mut p);
        let r = std::panic::catch_unwind(std::panic::AssertUnwindSafe(|| differential_of(&mem, &m, probe)));
        match r {
            Ok(Ok(k)) => compared += k,
            Ok(Err(e)) => return Err(format!("after {log:?}: {e}")),
            Err(_) => return Err(format!("after {log:?}: a query panicked: {}", crate::world::take_last_panic().unwrap_or_default())),
        }
    }
    Ok(compared)
}
