//! C14 logical-log differential, and the compound scenario actions whose fairness premise
//! must not be breakable by the minimiser: Stabilise (C10, C17.completes_when_healthy) and
//! Lockstep (C16.stable_majority_undisturbed).

use raft::eraftpb::MessageType;
use raft::{GetEntriesContext, StateRole, Storage};

use crate::action::*;
use crate::monitors::LockstepState;
use crate::prng::Prng;
use crate::world::*;

impl World {
    // ====================================================================================
    // C14: RaftLog answers like one sequence (stable model + unstable shadow + pending snapshot)
    // ====================================================================================

    pub fn check_logical_log(&mut self, n: NodeId) -> VResult<()> {
        let node = match self.nodes.get(&n) {
            Some(x) if x.raw.is_some() => x,
            _ => return Ok(()),
        };
        let raw = node.raw.as_ref().unwrap();
        let log = &raw.raft.raft_log;
        let o = &node.obs;
        let mut compared = 0u64;
        let mut bad: Option<String> = None;
        // abstract log
        let a_first = if o.snap_index != 0 { o.snap_index + 1 } else { node.disk.model.first_index() };
        let a_last = if o.unst_len > 0 {
            o.unst_offset + o.unst_len as u64 - 1
        } else if o.snap_index != 0 {
            o.snap_index
        } else {
            node.disk.model.last_index()
        };
        if log.first_index() != a_first {
            bad = Some(format!("first_index() = {}, model {}", log.first_index(), a_first));
        } else if log.last_index() != a_last {
            bad = Some(format!("last_index() = {}, model {}", log.last_index(), a_last));
        }
        compared += 2;
        if bad.is_none() {
            let lo = a_first.saturating_sub(2);
            for i in lo..=a_last + 2 {
                let got = log.term(i);
                let want: Option<u64> = if i + 1 < a_first || i > a_last { Some(0) } else { Self::term_at(node, i) };
                compared += 1;
                match (got, want) {
                    (Ok(g), Some(w)) if g == w => {}
                    (Err(_), None) => {}
                    (g, w) => {
                        bad = Some(format!("term({i}) = {:?}, model {:?} (first {a_first}, last {a_last})", g, w));
                        break;
                    }
                }
            }
        }
        if bad.is_none() {
            // conflict / up-to-date probes from the other nodes' logs
            let probes: Vec<(u64, u64)> = self
                .nodes
                .values()
                .filter(|x| x.id != n && x.started)
                .flat_map(|x| {
                    let li = x.obs.last_index;
                    vec![(li, x.obs.last_term), (x.obs.commit, Self::term_at(x, x.obs.commit).unwrap_or(0)), (li / 2, Self::term_at(x, li / 2).unwrap_or(0))]
                })
                .collect();
            let my_last_term = Self::term_at(node, a_last).unwrap_or(0);
            for (pi, pt) in probes {
                compared += 3;
                let want_match = pi + 1 >= a_first && pi <= a_last && Self::term_at(node, pi) == Some(pt) || ((pi + 1 < a_first || pi > a_last) && pt == 0);
                if log.match_term(pi, pt) != want_match {
                    bad = Some(format!("match_term({pi}, {pt}) = {}, model {}", log.match_term(pi, pt), want_match));
                    break;
                }
                let want_utd = pt > my_last_term || (pt == my_last_term && pi >= a_last);
                if log.is_up_to_date(pi, pt) != want_utd {
                    bad = Some(format!("is_up_to_date({pi}, {pt}) = {}, model {}", log.is_up_to_date(pi, pt), want_utd));
                    break;
                }
                if pi <= a_last && pi >= a_first {
                    // largest index <= pi with term <= pt (or the boundary)
                    let (gi, gt) = log.find_conflict_by_term(pi, pt);
                    let mut wi = pi;
                    let mut wt = Self::term_at(node, wi);
                    while let Some(t) = wt {
                        if t > pt && wi + 1 > a_first {
                            wi -= 1;
                            wt = if wi + 1 < a_first { Some(0) } else { Self::term_at(node, wi) };
                        } else {
                            break;
                        }
                    }
                    // the model stops at an unknown boundary term exactly like the library (Err => None)
                    let ok = gi == wi && (gt == wt || (wt.is_none() && gt.is_none()));
                    if !ok && !(wt.map(|t| t > pt).unwrap_or(false)) {
                        bad = Some(format!("find_conflict_by_term({pi}, {pt}) = ({gi}, {:?}), model ({wi}, {:?})", gt, wt));
                        break;
                    }
                }
            }
        }
        if bad.is_none() {
            // find_conflict on the entry batches that are actually in flight towards this node
            let model_match = |i: u64, t: u64| -> bool {
                if i + 1 < a_first || i > a_last {
                    t == 0
                } else {
                    Self::term_at(node, i) == Some(t)
                }
            };
            for (k, f) in self.flights.iter() {
                if k.t != n || f.msg.entries.is_empty() || f.msg.get_msg_type() != MessageType::MsgAppend {
                    continue;
                }
                let ents: Vec<raft::eraftpb::Entry> = f.msg.entries.to_vec();
                let got = log.find_conflict(&ents);
                let want = ents.iter().find(|e| !model_match(e.index, e.term)).map(|e| e.index).unwrap_or(0);
                compared += 1;
                if got != want {
                    bad = Some(format!("find_conflict(entries {}..={} of an in-flight append) = {got}, model {want}", ents[0].index, ents[ents.len() - 1].index));
                    break;
                }
            }
        }
        if bad.is_none() && a_last >= a_first {
            // sampled slices with size limits
            let mut p = crate::prng::mix(self.step_no, n + 77);
            let len = a_last - a_first + 1;
            for k in 0..3u64 {
                let lo = a_first + crate::prng::splitmix64(&mut p) % len;
                let hi = lo + 1 + crate::prng::splitmix64(&mut p) % (a_last + 1 - lo);
                let max: Option<u64> = match k {
                    0 => None,
                    1 => Some(0),
                    _ => Some(20 + crate::prng::splitmix64(&mut p) % 150),
                };
                let got = match log.slice(lo, hi, max, GetEntriesContext::empty(false)) {
                    Ok(v) => v,
                    Err(e) => {
                        bad = Some(format!("slice({lo},{hi},{max:?}) failed: {e:?}"));
                        break;
                    }
                };
                compared += 1;
                if got.is_empty() {
                    bad = Some(format!("slice({lo},{hi},{max:?}) returned nothing"));
                    break;
                }
                let mut prefix_ok = got.len() as u64 <= hi - lo;
                for (j, e) in got.iter().enumerate() {
                    let i = lo + j as u64;
                    match Self::log_at(node, i) {
                        Some((t, dg, _)) if t == e.term && dg == entry_digest(e) && e.index == i => {}
                        _ => {
                            prefix_ok = false;
                            break;
                        }
                    }
                }
                if !prefix_ok {
                    bad = Some(format!("slice({lo},{hi},{max:?}) is not a prefix of the logical log"));
                    break;
                }
                if max.is_none() && got.len() as u64 != hi - lo {
                    bad = Some(format!("slice({lo},{hi},None) returned {} of {} entries", got.len(), hi - lo));
                    break;
                }
                if let Some(mx) = max {
                    use protobuf::Message as _;
                    let sz: u64 = got.iter().map(|e| e.compute_size() as u64).sum();
                    if got.len() > 1 && sz > mx {
                        bad = Some(format!("slice({lo},{hi},{mx}) exceeds the limit with {} entries", got.len()));
                        break;
                    }
                }
            }
        }
        // persisted never beyond what stable storage holds with matching terms
        if bad.is_none() {
            let p = o.persisted;
            if p > node.disk.model.last_index() && o.snap_index == 0 {
                bad = Some(format!("persisted {p} > stable last index {}", node.disk.model.last_index()));
            } else if p >= node.disk.model.first_index() && p <= node.disk.model.last_index() && p < o.unst_offset && o.snap_index == 0 {
                let st = node.disk.store.term(p).ok();
                let lt = Self::term_at(node, p);
                if st != lt {
                    bad = Some(format!("persisted {p}: stable term {:?} differs from logical term {:?}", st, lt));
                }
            }
        }
        *self.stats.entry("chk.C14.logical_log").or_insert(0) += compared;
        if let Some(b) = bad {
            let d = format!("node {n}: RaftLog disagrees with the sequence model: {b}");
            let sig = b.split(|c: char| c == '(' || c == ' ').next().unwrap_or("").to_string();
            return Err(self.violation("C14", "C14.logical_log", n, d, format!("raftlog:{sig}")));
        }
        Ok(())
    }

    // ====================================================================================
    // fair, fault-free rounds (shared by Stabilise and Lockstep)
    // ====================================================================================

    /// Deliver every in-flight message among `members` (others untouched), run Ready rounds
    /// (Sync) and apply, until nothing moves. Order is perturbed by `rng` only.
    fn settle(&mut self, members: &[NodeId], rng: &mut Prng, max_iter: usize) -> VResult<()> {
        for _ in 0..max_iter {
            let mut moved = false;
            let mut keys: Vec<MsgKey> = self.flights.keys().filter(|k| members.contains(&k.f) && members.contains(&k.t)).cloned().collect();
            rng.shuffle(&mut keys);
            for k in keys {
                moved = true;
                self.apply_quiet(&Action::Deliver { k })?;
            }
            for n in members {
                let has = self.nodes.get(n).and_then(|x| x.raw.as_ref()).map(|r| r.has_ready()).unwrap_or(false);
                let pending_io = self.nodes.get(n).map(|x| !x.outstanding.is_empty() || !x.apply_q.is_empty()).unwrap_or(false);
                if has || pending_io {
                    moved = true;
                    self.apply_quiet(&Action::Fsync { n: *n, count: u32::MAX, defer: false })?;
                    self.apply_quiet(&Action::AppReady { n: *n, mode: Mode::Sync, skip_fsync: false, force: false })?;
                    self.apply_quiet(&Action::Apply { n: *n, count: u32::MAX })?;
                }
            }
            if !moved {
                break;
            }
        }
        Ok(())
    }

    /// Apply a sub-action of a compound action (no step counting, no trace hashing).
    fn apply_quiet(&mut self, a: &Action) -> VResult<()> {
        if self.verbose {
            if let Action::Deliver { k } = a {
                if let Some(f) = self.flights.get(k) {
                    let m = &f.msg;
                    eprintln!("   sub deliver {}>{} {:?} t{} i{} lt{} c{} e{} rej{} hint{} reqsnap{}", k.f, k.t, m.get_msg_type(), m.term, m.index, m.log_term, m.commit, m.entries.len(), m.reject, m.reject_hint, m.request_snapshot);
                }
            } else if !matches!(a, Action::Tick { .. } | Action::Fsync { .. } | Action::Apply { .. } | Action::SetKnob { .. } | Action::StorageFault { .. } | Action::EntriesFetched { .. }) {
                eprintln!("   sub {:?}", a);
            }
        }
        match a {
            Action::Stabilise { .. } | Action::Lockstep { .. } => Ok(()),
            _ => self.apply_sub(a),
        }
    }

    // ====================================================================================
    // Stabilise: C10.converges, C17.completes_when_healthy
    // ====================================================================================

    pub fn stabilise(&mut self, seed: u64, transfer: bool) -> VResult<()> {
        self.stabilised = true;
        let mut rng = Prng::new(seed);
        // ---- operator: heal. Messages in flight are delivered or lost; we keep them (delivered).
        // restart crashed nodes, clear transient storage errors, start members, drop non-members later
        let ids: Vec<NodeId> = self.nodes.keys().cloned().collect();
        for n in &ids {
            let (started, running, dec) = {
                let x = &self.nodes[n];
                (x.started, x.running(), x.decommissioned)
            };
            if started && !running && !dec {
                self.apply_quiet(&Action::Restart { n: *n })?;
            }
            if self.nodes[n].running() {
                self.apply_quiet(&Action::Notify { n: *n })?;
                self.apply_quiet(&Action::StorageFault { n: *n, log_unavailable: false, snap_unavailable: false })?;
                self.apply_quiet(&Action::EntriesFetched { n: *n })?;
                // knobs that could throttle to zero are reset (an inflight cap of 0 disables a peer by design)
                for p in &ids {
                    let cap = self.nodes[n].cfg.max_inflight_msgs;
                    self.apply_quiet(&Action::SetKnob { n: *n, knob: Knob::MaxInflight { peer: *p, cap } })?;
                }
                self.apply_quiet(&Action::SetKnob { n: *n, knob: Knob::GroupCommit(false) })?;
            }
        }
        let max_et = self.nodes.values().map(|x| x.cfg.election_tick).max().unwrap_or(10) as u64;
        let et_ticks = 2 * max_et; // one "election timeout" = max_election_tick ticks
        let b1 = 30 * et_ticks;
        let mut pending_reports: Vec<(NodeId, NodeId)> = Vec::new();
        let mut converged_at: Option<u64> = None;
        let mut proposal: Option<u64> = None;
        let mut proposal_id = 0xC10_0000u64 + (seed & 0xffff);
        let mut done_at: Option<u64> = None;
        let mut transfer_state: Option<(NodeId, NodeId, u64, u64)> = None; // (old leader, target, old term, started round)
        let mut transfer_done = !transfer;
        let mut slow = false;
        // hard limit: 240 election timeouts (in 160 000 runs of the unchanged tree no converging run needed more
        // than 90); work budget: a suffix that delivers more than 3 million messages is a message storm and is
        // judged like one that reached the round limit
        let limit = 8 * b1;
        let delivered0 = self.stats.get("msgs_delivered").cloned().unwrap_or(0);
        let mut round = 0u64;
        while round < limit {
            round += 1;
            if self.stats.get("msgs_delivered").cloned().unwrap_or(0) - delivered0 > 3_000_000 {
                self.bump("suffix_work_budget_exhausted");
                break;
            }
            // operator keeps the membership healthy: start members, decommission non-members
            self.operator_fair()?;
            let members: Vec<NodeId> = self.running_ids();
            for n in &members {
                self.apply_quiet(&Action::Tick { n: *n })?;
            }
            // snapshot transfers complete and are reported
            let snaps: Vec<(NodeId, NodeId)> = self.flights.iter().filter(|(_, f)| f.msg.get_msg_type() == MessageType::MsgSnapshot).map(|(k, _)| (k.f, k.t)).collect();
            pending_reports.extend(snaps);
            self.settle(&members, &mut rng, 64)?;
            for (f, t) in pending_reports.drain(..) {
                self.apply_quiet(&Action::ReportSnapshot { n: f, peer: t, ok: true })?;
            }
            // a leader that handed a snapshot to the transport during this leadership and has heard nothing about it
            // (no report, no acknowledgement, no message in flight any more) gets a failure report: the transport
            // always reports eventually - but only about snapshots it was actually given
            let stuck: Vec<(NodeId, NodeId)> = self
                .nodes
                .values()
                .filter(|x| x.running() && x.obs.role == StateRole::Leader)
                .flat_map(|x| x.obs.prs.iter().filter(|p| p.state == raft::ProgressState::Snapshot && x.snap_handed.contains_key(&p.id)).map(move |p| (x.id, p.id)))
                .collect();
            for (l, p) in stuck {
                if !self.flights.iter().any(|(k, f)| k.f == l && k.t == p && f.msg.get_msg_type() == MessageType::MsgSnapshot) {
                    self.apply_quiet(&Action::ReportSnapshot { n: l, peer: p, ok: false })?;
                }
            }
            self.settle(&members, &mut rng, 64)?;

            // ---- evaluate over the running members of the latest configuration (removed nodes that are
            // still running are outside the statement; the operator takes them offline eventually)
            let best_conf = self.nodes.values().filter(|x| x.running()).max_by_key(|x| (x.sm.applied, x.obs.term)).map(|x| x.obs.conf.clone()).unwrap_or_default();
            let members: Vec<NodeId> = self.running_ids().into_iter().filter(|n| best_conf.is_member(*n)).collect();
            let leaders: Vec<NodeId> = members.iter().filter(|n| self.nodes[n].obs.role == StateRole::Leader).cloned().collect();
            let uniform = if leaders.len() == 1 {
                let l = &self.nodes[&leaders[0]];
                let lconf = &l.obs.conf;
                members.iter().all(|n| {
                    let x = &self.nodes[n];
                    !lconf.is_member(*n) || (x.obs.last_index == l.obs.last_index && x.obs.last_term == l.obs.last_term && x.obs.commit == l.obs.commit && x.obs.term == l.obs.term)
                }) && l.obs.commit == l.obs.last_index
            } else {
                false
            };
            if converged_at.is_none() && uniform {
                converged_at = Some(round);
            }
            if let Some(_) = converged_at {
                // ---- transfer scenario (C17)
                if !transfer_done && leaders.len() == 1 {
                    let l = leaders[0];
                    match transfer_state {
                        None => {
                            let lc = self.nodes[&l].obs.conf.clone();
                            let cands: Vec<NodeId> = members.iter().filter(|n| **n != l && lc.is_voter(**n)).cloned().collect();
                            if cands.is_empty() || self.nodes[&l].obs.last_index != self.nodes[&l].obs.commit {
                                if cands.is_empty() {
                                    transfer_done = true;
                                }
                            } else {
                                let t = *rng.pick(&cands);
                                let term = self.nodes[&l].obs.term;
                                self.apply_quiet(&Action::Transfer { n: l, target: t })?;
                                transfer_state = Some((l, t, term, round));
                                self.bump("suffix_transfers");
                            }
                        }
                        Some((old, t, term, started)) => {
                            let tn = &self.nodes[&t];
                            let on = &self.nodes[&old];
                            if tn.running() && tn.obs.role == StateRole::Leader && tn.obs.term > term && on.obs.role == StateRole::Follower && on.obs.leader_id == t && on.obs.term == tn.obs.term {
                                *self.stats.entry("chk.C17.completes_when_healthy").or_insert(0) += 1;
                                self.check_leader_complete_pub(t)?;
                                transfer_done = true;
                                self.bump("suffix_transfers_completed");
                            } else if !on.running() || !best_conf.is_member(old) || !best_conf.is_voter(t) {
                                // a membership change that was still in the log removed one of the two: not the scenario any more
                                transfer_done = true;
                                self.bump("suffix_transfers_voided_by_membership_change");
                            } else if tn.running() && tn.obs.role == StateRole::Leader && tn.obs.term > term && round - started > 4 * et_ticks {
                                // the target leads but the old leader does not follow it although everything is delivered
                                let d = format!("transfer {old} -> {t} completed (target leads term {}) but the old leader is {:?} at term {} following {}", tn.obs.term, on.obs.role, on.obs.term, on.obs.leader_id);
                                return Err(self.violation("C17", "C17.completes_when_healthy", old, d, "old_leader_not_following".into()));
                            } else if round - started > 6 * et_ticks {
                                // the statement is conditional ("when a transfer completes"): a transfer that does not
                                // complete (e.g. the voters reject a lower-priority target) is abandoned by the leader
                                transfer_done = true;
                                self.bump("suffix_transfers_not_completed");
                            } else if on.obs.role == StateRole::Leader && on.obs.transferee.is_none() && on.obs.term == term && round - started > et_ticks {
                                // the leader abandoned the transfer after one election timeout: request again
                                transfer_state = None;
                            } else if !(on.obs.role == StateRole::Leader && on.obs.term == term) && !(tn.obs.role == StateRole::Leader) && leaders.len() == 1 && leaders[0] != old && leaders[0] != t {
                                // somebody else won the election that the transfer started: also healthy, retry from there
                                transfer_state = None;
                            }
                        }
                    }
                }
            }
            // ---- operator duties that the library leaves to the application: a leader that was removed from
            // the voters keeps leading but refuses proposals -> hand leadership to a voter; a joint configuration
            // entered with an explicit transition is left by proposing the empty change
            let acting_leader: Option<NodeId> = if leaders.len() == 1 {
                Some(leaders[0])
            } else if leaders.is_empty() {
                // a removed leader is no member any more but still leads the members
                self.nodes.values().filter(|x| x.running() && x.obs.role == StateRole::Leader && !x.obs.conf.is_voter(x.id)).max_by_key(|x| x.obs.term).map(|x| x.id)
            } else {
                None
            };
            if let (Some(l), true) = (acting_leader, round % et_ticks == 1) {
                let lc = self.nodes[&l].obs.conf.clone();
                if !lc.is_voter(l) {
                    let cands: Vec<NodeId> = members.iter().filter(|n| **n != l && lc.voters.contains(*n)).cloned().collect();
                    if !cands.is_empty() && self.nodes[&l].obs.transferee.is_none() {
                        let t = *rng.pick(&cands);
                        self.apply_quiet(&Action::Transfer { n: l, target: t })?;
                        self.bump("suffix_operator_transfers_from_removed_leader");
                    }
                } else if lc.joint() && !lc.auto_leave && self.nodes[&l].obs.transferee.is_none() {
                    proposal_id += 1;
                    self.apply_quiet(&Action::ProposeConf { n: l, id: proposal_id, v1: false, transition: 0, changes: vec![] })?;
                    self.bump("suffix_leave_joint_proposed");
                }
            }
            // ---- client: keeps proposing (one election timeout apart) until a fresh proposal made after
            // convergence has been applied by every running member
            if leaders.len() == 1 && (proposal.is_none() || round % et_ticks == 0) {
                let l = leaders[0];
                let busy = self.nodes[&l].obs.transferee.is_some();
                if !busy {
                    proposal_id += 1;
                    let before = self.nodes[&l].obs.last_index;
                    self.apply_quiet(&Action::Propose { n: l, id: proposal_id, size: 16 })?;
                    if self.nodes[&l].obs.last_index > before {
                        proposal = Some(self.nodes[&l].obs.last_index);
                        let members2 = self.running_ids();
                        self.settle(&members2, &mut rng, 64)?;
                    }
                }
            }
            if let (Some(pi), Some(_), true) = (proposal, converged_at, transfer_done) {
                if leaders.len() == 1 {
                    let l = &self.nodes[&leaders[0]];
                    let lconf = l.obs.conf.clone();
                    let all = members.iter().all(|n| !lconf.is_member(*n) || (self.nodes[n].sm.applied >= pi && self.nodes[n].obs.last_index == l.obs.last_index && self.nodes[n].obs.commit == l.obs.commit));
                    if all && self.ghost.cl_max() >= pi && l.obs.commit == l.obs.last_index && l.obs.role == StateRole::Leader {
                        done_at = Some(round);
                        break;
                    }
                    if l.obs.last_index < pi {
                        proposal = None;
                    }
                }
            }
            if round > 2 * b1 {
                slow = true;
            }
        }
        // premise of the property: a majority of each voter set (of the latest configuration) is running
        let premise = {
            let running: std::collections::BTreeSet<u64> = self.running_ids().into_iter().collect();
            match self.nodes.values().filter(|x| x.running()).max_by_key(|x| (x.sm.applied, x.obs.term)) {
                Some(x) => {
                    // every configuration still held by a running member must be able to decide
                    self.nodes.values().filter(|y| y.running()).all(|y| crate::refmodel::RefConf::from_shape(&y.obs.conf).is_quorum(&running) || !x.obs.conf.is_member(y.id))
                }
                None => false,
            }
        };
        if !premise {
            self.bump("suffix_premise_not_met");
            return Ok(());
        }
        *self.stats.entry("chk.C10.converges").or_insert(0) += 1;
        self.bump_by("suffix_rounds", round);
        if slow {
            self.bump("slow_runs");
        }
        if done_at.is_none() {
            let state: Vec<String> = self
                .nodes
                .values()
                .filter(|x| x.running())
                .map(|x| format!("n{}:{:?} t{} last{} commit{} applied{} lead{}", x.id, x.obs.role, x.obs.term, x.obs.last_index, x.obs.commit, x.sm.applied, x.obs.leader_id))
                .collect();
            let d = format!(
                "after faults stopped the cluster did not converge and commit a new proposal within {} fair rounds (converged at {:?}, proposal {:?}): {}",
                round, converged_at, proposal, state.join(" | ")
            );
            // structural classification of the stall (known-finding signatures are narrow)
            // what the (highest-term) leader can serve as a snapshot: its applied index
            let leader_applied = self.nodes.values().filter(|x| x.running() && x.obs.role == StateRole::Leader).max_by_key(|x| x.obs.term).map(|x| x.sm.applied).unwrap_or(0);
            let req_stall = self.nodes.values().any(|x| x.running() && x.obs.pending_request_snapshot > leader_applied && x.obs.conf.is_voter(x.id))
                || self.nodes.values().filter(|x| x.running() && x.obs.role == StateRole::Leader).any(|x| x.obs.prs.iter().any(|p| p.pending_request_snapshot > x.sm.applied && x.obs.conf.is_voter(p.id)));
            // a non-voter (learner / demoted voter) whose term is above the leader's never answers the
            // leader's lower-term messages unless check_quorum or pre_vote is on, and never campaigns
            let leader_term = self.nodes.values().filter(|x| x.running() && x.obs.role == StateRole::Leader).map(|x| x.obs.term).max().unwrap_or(0);
            let deaf_nonvoter = self.nodes.values().any(|x| x.running() && x.obs.term > leader_term && leader_term > 0 && !x.obs.promotable && !(x.cfg.check_quorum || x.cfg.pre_vote));
            // without pre_vote/check_quorum a node with an outdated configuration keeps campaigning among peers
            // that reject it, its term runs ahead, and it silently ignores the lower-term vote requests of the
            // only electable node (lower-term MsgRequestVote is dropped without an answer)
            let best = self.nodes.values().filter(|x| x.running()).max_by_key(|x| (x.sm.applied, x.obs.term)).map(|x| (x.obs.conf.clone(), x.sm.applied));
            let outrun = match &best {
                Some((bc, _)) => {
                    let electable_term = self.nodes.values().filter(|x| x.running() && x.obs.conf == *bc && bc.is_voter(x.id)).map(|x| x.obs.term).max().unwrap_or(0);
                    leader_term == 0
                        && self.nodes.values().any(|x| x.running() && x.obs.conf != *bc && x.obs.term > electable_term && bc.is_voter(x.id) && !(x.cfg.check_quorum || x.cfg.pre_vote))
                }
                None => false,
            };
            // liveness face of the stale-configuration election: a leader elected with a configuration two or
            // more changes behind its own log committed membership entries with a quorum that does not
            // intersect the newest configuration; its voters lack committed entries and nobody who has them may lead
            let max_commit = self.nodes.values().filter(|x| x.running()).map(|x| x.obs.commit).max().unwrap_or(0);
            let stranded = !self.ghost.stale_conf_elections.is_empty()
                && match &best {
                    Some((bc, _)) => {
                        let voters: Vec<&crate::world::Node> = self.nodes.values().filter(|x| x.running() && bc.is_voter(x.id)).collect();
                        !voters.is_empty()
                            && voters.iter().all(|x| x.obs.last_index < max_commit)
                            && self.nodes.values().filter(|x| x.running() && x.obs.last_index >= max_commit).all(|x| !x.obs.promotable)
                    }
                    None => false,
                };
            // every node that may campaign needs, by its own (older) configuration, the vote of a node that is no longer
            // a voter in its own configuration, cannot campaign itself, and refuses because its log is longer
            let blocked_by_nonvoter = leader_term == 0 && {
                let running: Vec<&crate::world::Node> = self.nodes.values().filter(|x| x.running()).collect();
                let cands: Vec<&&crate::world::Node> = running.iter().filter(|x| x.obs.promotable).collect();
                !cands.is_empty()
                    && cands.iter().all(|c| {
                        let key = |x: &crate::world::Node| (x.obs.last_term, x.obs.last_index);
                        let rc = crate::refmodel::RefConf::from_shape(&c.obs.conf);
                        let granters: std::collections::BTreeSet<u64> = running.iter().filter(|x| key(x) <= key(c)).map(|x| x.id).collect();
                        let with_blockers: std::collections::BTreeSet<u64> =
                            running.iter().filter(|x| key(x) <= key(c) || !x.obs.promotable).map(|x| x.id).collect();
                        !rc.is_quorum(&granters) && rc.is_quorum(&with_blockers)
                    })
            };
            let sig = if stranded {
                "stall:stale_config_leader_stranded_new_voters"
            } else if blocked_by_nonvoter {
                "stall:nonvoter_with_longer_log_blocks_the_only_candidates"
            } else if outrun {
                "stall:stale_config_voter_outruns_terms"
            } else if deaf_nonvoter {
                "stall:higher_term_nonvoter_ignores_leader"
            } else if req_stall {
                "stall:voter_requests_snapshot_beyond_commit"
            } else if converged_at.is_none() {
                "no_convergence"
            } else {
                "proposal_not_applied"
            };
            return Err(self.violation("C10", "C10.converges", 0, d, sig.into()));
        }
        Ok(())
    }

    /// Operator during the fair suffix: start nodes that the latest configuration names, take
    /// nodes offline that no running member's configuration lists any more.
    fn operator_fair(&mut self) -> VResult<()> {
        let ids: Vec<NodeId> = self.nodes.keys().cloned().collect();
        // latest configuration = the one of the node with the highest applied index
        let best = self.nodes.values().filter(|x| x.running()).max_by_key(|x| (x.sm.applied, x.obs.term)).map(|x| x.obs.conf.clone());
        let conf = match best {
            Some(c) => c,
            None => return Ok(()),
        };
        for n in ids {
            let x = &self.nodes[&n];
            if conf.is_member(n) && !x.started && !x.decommissioned {
                self.apply_quiet(&Action::StartNode { n })?;
            } else if x.running() && !conf.is_member(n) {
                // README: removed peers are taken offline once the group has left the transition
                let any_lists = self.nodes.values().any(|y| y.running() && y.id != n && conf.is_voter(y.id) && y.obs.conf.is_member(n));
                if !any_lists && !conf.joint() {
                    self.apply_quiet(&Action::Decommission { n })?;
                }
            }
        }
        Ok(())
    }

    // ====================================================================================
    // Lockstep: C16.stable_majority_undisturbed
    // ====================================================================================

    pub fn lockstep_round(&mut self, majority: &[NodeId]) -> VResult<()> {
        if self.lockstep.is_none() {
            // the first round fixes (leader, term, majority); premise: all of the majority run with
            // pre_vote and check_quorum, follow one leader, and nobody has a higher term
            let leaders: Vec<&Node> = majority.iter().filter_map(|n| self.nodes.get(n)).filter(|x| x.running() && x.obs.role == StateRole::Leader).collect();
            if leaders.len() != 1 {
                return Ok(());
            }
            let l = leaders[0].id;
            let t = leaders[0].obs.term;
            let conf = RefShape(&leaders[0].obs.conf).quorum(majority);
            let all_follow = majority.iter().all(|n| {
                let x = &self.nodes[n];
                // (a follower of that term that has just restarted does not know its leader yet: the heartbeats of the
                // grace period tell it)
                x.running() && x.obs.term == t && (x.id == l || (x.obs.role == StateRole::Follower && (x.obs.leader_id == l || x.obs.leader_id == 0))) && x.cfg.pre_vote && x.cfg.check_quorum
            });
            let max_term = self.nodes.values().filter(|x| x.started).map(|x| x.obs.term.max(x.disk.durable.hs.term)).max().unwrap_or(0);
            let stale_msgs = self.flights.values().any(|f| f.msg.term > t);
            let all_pv = self.nodes.values().all(|x| x.cfg.pre_vote && x.cfg.check_quorum);
            // no membership change may be under way: the majority is fixed for the whole phase
            let pending_conf = self.nodes.values().filter(|x| x.running()).any(|x| {
                let mut i = x.obs.applied + 1;
                let mut found = false;
                while i <= x.obs.last_index {
                    if let Some((_, _, true)) = Self::log_at(x, i) {
                        found = true;
                        break;
                    }
                    i += 1;
                }
                found
            }) || self.nodes[&l].obs.conf.joint()
                || self.flights.values().any(|f| f.msg.entries.iter().any(is_conf_entry));
            if !conf || !all_follow || max_term > t || stale_msgs || !all_pv || pending_conf {
                return Ok(());
            }
            let old_grants: Vec<MsgKey> = self
                .flights
                .iter()
                .filter(|(_, f)| f.msg.get_msg_type() == MessageType::MsgRequestPreVoteResponse && !f.msg.reject)
                .map(|(k, _)| *k)
                .collect();
            self.lockstep = Some(LockstepState { leader: l, term: t, majority: majority.to_vec(), rounds: 0, old_grants, stale_grant_delivered: false, conf: self.nodes[&l].obs.conf.clone() });
            self.bump("lockstep_established");
        }
        if self.lockstep.as_ref().map(|l| l.majority != majority).unwrap_or(true) {
            return Ok(());
        }
        let grace = 2 * self.nodes[&self.lockstep.as_ref().unwrap().leader].cfg.election_tick as u64 + 2;
        let (maj, seed) = {
            let ls = self.lockstep.as_mut().unwrap();
            ls.rounds += 1;
            (ls.majority.clone(), ls.rounds)
        };
        if seed == grace + 1 {
            // the stable period starts to protect now: remember the pre-vote grants issued before it
            let grants: Vec<MsgKey> = self
                .flights
                .iter()
                .filter(|(_, f)| f.msg.get_msg_type() == MessageType::MsgRequestPreVoteResponse && !f.msg.reject)
                .map(|(k, _)| *k)
                .collect();
            self.lockstep.as_mut().unwrap().old_grants.extend(grants);
            // re-validate the premise "no node has a term above the leader's" now that it counts
            let t = self.lockstep.as_ref().unwrap().term;
            let max_term = self.nodes.values().filter(|x| x.started).map(|x| x.obs.term.max(x.disk.durable.hs.term)).max().unwrap_or(0);
            let newer_msgs = self.flights.values().any(|f| f.msg.term > t && !(f.msg.get_msg_type() == MessageType::MsgRequestPreVote));
            if max_term > t || newer_msgs {
                self.lockstep = None;
                self.bump("lockstep_cancelled_in_grace");
                return Ok(());
            }
        }
        let mut rng = Prng::new(seed ^ 0x10c5);
        for n in &maj {
            self.apply_quiet(&Action::Tick { n: *n })?;
            if self.lockstep.is_none() {
                return Ok(());
            }
        }
        self.settle(&maj, &mut rng, 64)?;
        self.bump("lockstep_rounds");
        Ok(())
    }

    pub fn check_lockstep_invariant(&mut self, c: &CallCtx) -> VResult<()> {
        let ls = match &self.lockstep {
            Some(x) => x,
            None => return Ok(()),
        };
        if !ls.majority.contains(&c.n) {
            return Ok(());
        }
        let (l, t) = (ls.leader, ls.term);
        let stale = ls.stale_grant_delivered;
        if self.nodes[&l].obs.conf != ls.conf {
            self.lockstep = None;
            self.bump("lockstep_cancelled_by_membership_change");
            return Ok(());
        }
        // The premise "leader and majority exchange heartbeats on schedule" must have held for a
        // full election timeout before it protects anybody: leases and recent-activity flags still
        // reflect the chaotic prefix. A disturbance during this grace period only cancels the scenario.
        let grace = 2 * self.nodes[&l].cfg.election_tick as u64 + 2;
        if ls.rounds <= grace {
            if c.post.term != t || (c.n == l && c.post.role != StateRole::Leader) {
                self.lockstep = None;
                self.bump("lockstep_cancelled_in_grace");
            }
            return Ok(());
        }
        *self.stats.entry("chk.C16.stable_majority_undisturbed").or_insert(0) += 1;
        if c.post.term != t {
            let d = format!("member {} of the lock-step majority changed its term {} -> {} in {} (leader {l} of term {t}){}", c.n, c.pre.term, c.post.term, kind_name(c.kind), if stale { "; a pre-vote grant issued before the stable period was delivered during it" } else { "" });
            return Err(self.violation("C16", "C16.stable_majority_undisturbed", c.n, d, format!("majority_term_changed{}", if stale { ":stale_prevote_grant" } else { "" })));
        }
        if c.n == l && c.post.role != StateRole::Leader {
            let d = format!("leader {l} of term {t} stepped down in {} although its majority exchanges heartbeats on schedule", kind_name(c.kind));
            return Err(self.violation("C16", "C16.stable_majority_undisturbed", c.n, d, format!("leader_stepped_down{}", if stale { ":stale_prevote_grant" } else { "" })));
        }
        Ok(())
    }
}

struct RefShape<'a>(&'a ConfShape);
impl RefShape<'_> {
    fn quorum(&self, set: &[NodeId]) -> bool {
        let s: std::collections::BTreeSet<u64> = set.iter().cloned().collect();
        crate::refmodel::RefConf::from_shape(self.0).is_quorum(&s)
    }
}
