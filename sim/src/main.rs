//! raftsim: deterministic simulation with fault injection for tikv/raft-rs.
//! CLI: check <ID> | replay <file> | run (debug) | determinism.

mod action;
mod disk;
mod driver;
mod ghost;
mod minimise;
mod monitors;
mod monitors2;
mod monitors3;
mod scenario;
mod scripted;
mod prng;
mod profiles;
mod refmodel;
mod world;

use std::collections::{BTreeMap, BTreeSet};
use std::sync::atomic::{AtomicUsize, Ordering};
use std::sync::Mutex;
use std::time::Instant;

use serde::{Deserialize, Serialize};

use action::{Action, ClusterCfg};
use driver::{Driver, Profile};
use prng::mix;
use world::{Violation, World};

#[derive(Serialize, Deserialize, Clone, Debug)]
pub struct Expected {
    pub property: String,
    pub check: String,
    pub step: u64,
    pub node: u64,
    pub sig: String,
    pub detail: String,
}

#[derive(Serialize, Deserialize, Clone, Debug)]
pub struct ReplayFile {
    pub property: String,
    pub profile: String,
    pub seed: u64,
    pub run_index: u64,
    pub run_seed: u64,
    pub minimised: bool,
    pub original_actions: usize,
    pub cluster: ClusterCfg,
    pub actions: Vec<Action>,
    pub expected: Expected,
}

#[derive(Deserialize, Clone, Debug)]
pub struct KnownFinding {
    pub property: String,
    pub check: String,
    /// signature prefix that must match Violation.sig
    pub signature: String,
    pub description: String,
    /// "open" or "fixed: <commit>"
    pub status: String,
    /// optional history precondition: "s3" = run tainted by the S3 precondition
    #[serde(default)]
    pub precondition: String,
    /// optional stored reproduction (replay file under /verif), re-run by the property's check
    #[serde(default)]
    pub replay: String,
}

pub fn load_known_findings() -> Vec<KnownFinding> {
    let path = std::env::var("VERIF_KNOWN_FINDINGS").unwrap_or_else(|_| "/verif/known_findings.json".to_string());
    match std::fs::read_to_string(&path) {
        Ok(s) => serde_json::from_str(&s).unwrap_or_else(|e| {
            eprintln!("harness error: cannot parse {path}: {e}");
            std::process::exit(2)
        }),
        Err(_) => Vec::new(),
    }
}

pub struct RunSummary {
    pub index: u64,
    pub run_seed: u64,
    pub actions: usize,
    pub sim_time_us: u64,
    pub stats: BTreeMap<&'static str, u64>,
    pub faults: BTreeMap<&'static str, u64>,
    pub trace_hash: u64,
    pub states: Vec<u64>,
    pub violation: Option<Violation>,
    pub tainted: bool,
    pub suppressed: BTreeMap<&'static str, u64>,
    pub trace: Option<(ClusterCfg, Vec<Action>)>,
    pub sample: Option<serde_json::Value>,
}

pub fn run_one(p: &Profile, seed: u64, index: u64, keep_trace: bool, want_sample: bool, focus: Option<&'static str>) -> RunSummary {
    // a panic of the harness itself (outside the catch_unwind around library calls) must never take the
    // process down: it is reported as a harness error (exit 2) with the run that caused it
    match std::panic::catch_unwind(|| run_one_inner(p, seed, index, keep_trace, want_sample, focus)) {
        Ok(r) => r,
        Err(_) => {
            let msg = world::take_last_panic().unwrap_or_else(|| "<panic>".into());
            RunSummary {
                index,
                run_seed: mix(seed, index),
                actions: 0,
                sim_time_us: 0,
                stats: BTreeMap::new(),
                faults: BTreeMap::new(),
                trace_hash: 0,
                states: vec![],
                violation: Some(Violation { prop: "HARNESS", check: "HARNESS.panic", node: 0, step: 0, detail: format!("harness panicked: {msg}"), sig: "harness_panic".into() }),
                tainted: false,
                suppressed: BTreeMap::new(),
                trace: None,
                sample: None,
            }
        }
    }
}

fn run_one_inner(p: &Profile, seed: u64, index: u64, keep_trace: bool, want_sample: bool, focus: Option<&'static str>) -> RunSummary {
    let run_seed = mix(seed, index);
    let p = if !p.mix.is_empty() && index % 2 == 1 { &p.mix[((index / 2) % p.mix.len() as u64) as usize] } else { p };
    let d = Driver::new(p, run_seed, focus);
    let out_world_stats;
    let trace_hash;
    let states;
    let tainted;
    let suppressed;
    let outcome = {
        // Driver::run consumes the driver; stats are read from the world it returns
        let (o, w) = d.run_with_world();
        out_world_stats = w.stats.clone();
        trace_hash = w.trace_hash;
        states = w.state_hashes.iter().cloned().collect::<Vec<u64>>();
        tainted = !w.ghost.tainted_terms.is_empty() || !w.ghost.stale_conf_elections.is_empty();
        suppressed = w.suppressed.clone();
        o
    };
    let sample = if want_sample {
        let n = outcome.trace.len();
        let head: Vec<&Action> = outcome.trace.iter().take(25).collect();
        let tail: Vec<&Action> = outcome.trace.iter().skip(n.saturating_sub(10)).collect();
        Some(serde_json::json!({
            "run_index": index, "run_seed": run_seed, "actions": n,
            "cluster": {"voters": outcome.cluster.voters, "learners": outcome.cluster.learners,
                        "universe": outcome.cluster.nodes.len(), "initial_index": outcome.cluster.initial_index,
                        "node_1": outcome.cluster.nodes.values().next()},
            "first_actions": head, "last_actions": tail,
        }))
    } else {
        None
    };
    let keep = keep_trace || outcome.violation.is_some();
    RunSummary {
        index,
        run_seed,
        actions: outcome.trace.len(),
        sim_time_us: outcome.sim_time_us,
        stats: out_world_stats,
        faults: outcome.fault_counts,
        trace_hash,
        states,
        violation: outcome.violation,
        tainted,
        suppressed,
        trace: if keep { Some((outcome.cluster, outcome.trace)) } else { None },
        sample,
    }
}

/// Replay a trace on a fresh World. Returns the violation (if any) and the world.
pub fn replay(cluster: &ClusterCfg, actions: &[Action], focus: Option<&'static str>) -> (Option<Violation>, World) {
    let mut w = World::new(cluster.clone());
    w.focus = focus;
    for a in actions {
        if let Err(v) = w.apply(a) {
            return (Some(v), w);
        }
    }
    let v = w.full_recheck().err();
    (v, w)
}

fn parse_args() -> BTreeMap<String, String> {
    let mut m = BTreeMap::new();
    let args: Vec<String> = std::env::args().collect();
    let mut i = 1;
    let mut pos = 0;
    while i < args.len() {
        let a = &args[i];
        if let Some(k) = a.strip_prefix("--") {
            if i + 1 < args.len() && !args[i + 1].starts_with("--") {
                m.insert(k.to_string(), args[i + 1].clone());
                i += 2;
            } else {
                m.insert(k.to_string(), "1".to_string());
                i += 1;
            }
        } else {
            m.insert(format!("arg{pos}"), a.clone());
            pos += 1;
            i += 1;
        }
    }
    m
}

fn focus_of(args: &BTreeMap<String, String>) -> Option<&'static str> {
    args.get("focus").map(|s| -> &'static str { Box::leak(s.clone().into_boxed_str()) })
}

fn env_seed() -> u64 {
    std::env::var("VERIF_SEED").ok().and_then(|s| s.parse::<u64>().ok()).unwrap_or(20260925)
}

fn finding_matches(k: &KnownFinding, v: &Violation, tainted: bool) -> bool {
    if !k.status.starts_with("open") {
        return false;
    }
    if k.precondition == "s3" {
        // history precondition: the run elected a leader from a node that reloaded a lower commit index while holding
        // >= 2 committed-but-unapplied membership entries, or, more generally, a leader whose own log held >= 2
        // membership entries beyond its applied index when it won (it campaigned two changes behind its log)
        return tainted && k.property == v.prop && ["C01", "C02", "C03", "C04", "C05", "C07", "C09"].contains(&v.prop);
    }
    k.property == v.prop && k.check == v.check && v.sig.starts_with(&k.signature)
}

fn main() {
    world::install_thread_hooks();
    let args = parse_args();
    let cmd = args.get("arg0").cloned().unwrap_or_default();
    let code = match cmd.as_str() {
        "check" => cmd_check(&args),
        "replay" => cmd_replay(&args),
        "run" => cmd_run(&args),
        "determinism" => cmd_determinism(&args),
        "triage" => cmd_triage(&args),
        "scenario" => cmd_scenario(&args),
        "find" => cmd_find(&args),
        "minimise" => cmd_minimise(&args),
        _ => {
            eprintln!("usage: raftsim check <ID> [--tier quick|thorough] [--runs N] | replay <file> | run --profile P --index I | determinism --profile P --runs N");
            2
        }
    };
    std::process::exit(code);
}

fn cmd_run(args: &BTreeMap<String, String>) -> i32 {
    let pid = args.get("profile").cloned().unwrap_or_else(|| "C01".into());
    let spec = profiles::spec(&pid);
    let seed = args.get("seed").and_then(|s| s.parse().ok()).unwrap_or_else(env_seed);
    let index: u64 = args.get("index").and_then(|s| s.parse().ok()).unwrap_or(0);
    let r = run_one(&spec.profile, seed, index, true, false, focus_of(args));
    println!("run {} seed {} actions {} sim_ms {} trace_hash {:x}", index, r.run_seed, r.actions, r.sim_time_us / 1000, r.trace_hash);
    for (k, v) in &r.stats {
        println!("  {k} = {v}");
    }
    for (k, v) in &r.faults {
        println!("  fault {k} = {v}");
    }
    if let (Some(v), Some(path), Some((cluster, trace))) = (&r.violation, args.get("write"), r.trace.as_ref()) {
        let (min_trace, mv) = minimise::minimise(cluster, trace, v, 120, focus_of(args));
        let rf = ReplayFile {
            property: mv.prop.to_string(),
            profile: spec.profile.name.to_string(),
            seed,
            run_index: index,
            run_seed: r.run_seed,
            minimised: true,
            original_actions: trace.len(),
            cluster: cluster.clone(),
            actions: min_trace.clone(),
            expected: Expected { property: mv.prop.to_string(), check: mv.check.to_string(), step: mv.step, node: mv.node, sig: mv.sig.clone(), detail: mv.detail.clone() },
        };
        std::fs::write(path, serde_json::to_string_pretty(&rf).unwrap()).unwrap();
        println!("minimised {} -> {} actions, written to {path}", trace.len(), min_trace.len());
    }
    if let Some(v) = &r.violation {
        println!("violation {} {} node {} step {}: {}", v.prop, v.check, v.node, v.step, v.detail);
        if args.contains_key("verbose") {
            let (c, t) = r.trace.as_ref().unwrap();
            let tail: usize = args.get("verbose").and_then(|s| s.parse().ok()).unwrap_or(60);
            println!("cluster voters {:?} learners {:?} initial ({}, {})", c.voters, c.learners, c.initial_index, c.initial_term);
            println!("node cfg 1: {:?}", c.nodes.values().next().unwrap());
            let mut w = World::new(c.clone());
            w.verbose = args.contains_key("sub");
            w.focus = focus_of(args);
            let mut last_line = String::new();
            for (i, a) in t.iter().enumerate() {
                let res = w.apply(a);
                if i + tail >= t.len() {
                    let watch: Option<u64> = args.get("watch").and_then(|s| s.parse().ok());
                    if watch.is_none() { println!("#{} {}", i + 1, serde_json::to_string(a).unwrap()); }
                    for x in w.nodes.values() {
                        if !x.started { continue; }
                        if let Some(wn) = watch {
                            if x.id != wn { continue; }
                            let o = &x.obs;
                            let line = format!("rs{} n{} {} {:?} t{} lead{} commit{} applied{} pers{} last{}({}) first{} unst@{}+{} snap{} | sm{} q{} out{} wq{} | dur t{} c{} last{} trunc{} app{}", o.read_states_len,
                                x.id, if x.running() {"up"} else {"DOWN"}, o.role, o.term, o.leader_id, o.commit, o.applied, o.persisted, o.last_index, o.last_term, o.first_index,
                                o.unst_offset, o.unst_len, o.snap_index, x.sm.applied, x.apply_q.len(), x.outstanding.len(), x.disk.wq.len(),
                                x.disk.durable.hs.term, x.disk.durable.hs.commit, x.disk.durable.last_index(), x.disk.durable.trunc_index, x.disk.durable.app.applied);
                            let line = format!("{} prs {:?} gc{}", line, o.prs.iter().map(|p| (p.id, p.matched, p.next_idx, format!("{:?}{}{}", p.state, if p.paused {"P"} else {""}, p.pending_snapshot), p.win.len(), p.cap, p.pending_request_snapshot)).collect::<Vec<_>>(), o.group_commit);
                            if last_line != line {
                                println!("#{} {}\n      {}", i + 1, serde_json::to_string(a).unwrap(), line);
                                last_line = line;
                            }
                            continue;
                        }
                        let o = &x.obs;
                        println!("      n{} {} {:?} t{} v{} lead{} commit{} applied{} pers{} last{}({}) first{} unst@{}+{} snap{} | sm{} q{} out{} wq{} | dur t{} v{} c{} last{} trunc{} app{} | conf {:?}/{:?} L{:?}",
                            x.id, if x.running() {"up"} else {"DOWN"}, o.role, o.term, o.vote, o.leader_id, o.commit, o.applied, o.persisted, o.last_index, o.last_term, o.first_index,
                            o.unst_offset, o.unst_len, o.snap_index, x.sm.applied, x.apply_q.len(), x.outstanding.len(), x.disk.wq.len(),
                            x.disk.durable.hs.term, x.disk.durable.hs.vote, x.disk.durable.hs.commit, x.disk.durable.last_index(), x.disk.durable.trunc_index, x.disk.durable.app.applied,
                            o.conf.voters, o.conf.outgoing, o.conf.learners);
                    }
                    if watch.is_some() { if res.is_err() { break; } continue; }
                    let fl: Vec<String> = w.flights.iter().map(|(k, f)| format!("{}>{}#{}:{:?}(t{} i{} c{} e{}{})", k.f, k.t, k.s, f.msg.get_msg_type(), f.msg.term, f.msg.index, f.msg.commit, f.msg.entries.len(), if f.msg.reject {" rej"} else {""})).collect();
                    println!("      flights: {}", fl.join(" "));
                }
                if res.is_err() { break; }
            }
        }
        if args.contains_key("dump") {
            let (c, t) = r.trace.as_ref().unwrap();
            println!("{}", serde_json::to_string(&c).unwrap());
            for a in t {
                println!("{}", serde_json::to_string(a).unwrap());
            }
        }
        return 1;
    }
    0
}

fn cmd_determinism(args: &BTreeMap<String, String>) -> i32 {
    // run N seeds, print (index, trace hash, actions, final stats digest) for diffing across processes
    let pid = args.get("profile").cloned().unwrap_or_else(|| "C01".into());
    let spec = profiles::spec(&pid);
    let seed = args.get("seed").and_then(|s| s.parse().ok()).unwrap_or_else(env_seed);
    let runs: u64 = args.get("runs").and_then(|s| s.parse().ok()).unwrap_or(200);
    let threads: usize = args.get("threads").and_then(|s| s.parse().ok()).unwrap_or(16);
    let results = run_batch(&spec.profile, seed, 0, runs, threads, false, None);
    let check_replay = args.contains_key("replay");
    for r in &results {
        let mut d = prng::Digest::new();
        for (k, v) in &r.stats {
            d.bytes(k.as_bytes()).u64(*v);
        }
        let mut st: Vec<u64> = r.states.clone();
        st.sort_unstable();
        for s in &st {
            d.u64(*s);
        }
        println!("{} {:016x} {} {:016x} {}", r.index, r.trace_hash, r.actions, d.finish(), r.violation.as_ref().map(|v| v.check).unwrap_or("-"));
    }
    if check_replay {
        // replay each recorded trace and require the identical abstract hash
        let mut bad = 0;
        for i in 0..runs.min(200) {
            let r = run_one(&spec.profile, seed, i, true, false, None);
            let (c, t) = r.trace.as_ref().unwrap();
            let (v, w) = replay(c, t, None);
            if w.trace_hash != r.trace_hash || v.as_ref().map(|x| x.check) != r.violation.as_ref().map(|x| x.check) {
                println!("REPLAY-DIVERGED run {i}");
                bad += 1;
            }
        }
        println!("replayed {} traces, {} diverged", runs.min(200), bad);
        if bad > 0 {
            return 2;
        }
    }
    0
}

pub fn run_batch(p: &Profile, seed: u64, from: u64, to: u64, threads: usize, samples: bool, focus: Option<&'static str>) -> Vec<RunSummary> {
    let next = AtomicUsize::new(from as usize);
    let out: Mutex<Vec<RunSummary>> = Mutex::new(Vec::new());
    // watchdog: a single run that does not end (a library call or a compound action that never returns) must not
    // hang the check silently: it is reported as a harness error with the run to reproduce it
    let active: Mutex<BTreeMap<u64, Instant>> = Mutex::new(BTreeMap::new());
    let done = std::sync::atomic::AtomicBool::new(false);
    let limit = std::env::var("VERIF_RUN_LIMIT_S").ok().and_then(|s| s.parse::<u64>().ok()).unwrap_or(900);
    std::thread::scope(|s| {
        s.spawn(|| {
            let mut warned: BTreeSet<u64> = BTreeSet::new();
            while !done.load(Ordering::Relaxed) {
                std::thread::sleep(std::time::Duration::from_millis(500));
                let a = active.lock().unwrap();
                for (i, t0) in a.iter() {
                    let el = t0.elapsed().as_secs();
                    if el >= 120 && warned.insert(*i) {
                        eprintln!("note: run {i} (profile {}, seed {seed}) has been running for {el} s", p.name);
                    }
                    if el >= limit {
                        eprintln!("harness error: run {i} (profile {}, seed {seed}, run seed {}) did not end within {limit} s; reproduce with `raftsim run --profile <ID> --seed {seed} --index {i}`", p.name, mix(seed, *i));
                        std::process::exit(2);
                    }
                }
            }
        });
        let workers: Vec<_> = (0..threads.max(1))
            .map(|_| {
                s.spawn(|| {
                    world::install_thread_hooks();
                    loop {
                        let i = next.fetch_add(1, Ordering::Relaxed) as u64;
                        if i >= to {
                            break;
                        }
                        active.lock().unwrap().insert(i, Instant::now());
                        let r = run_one(p, seed, i, false, samples && i < from + 2, focus);
                        active.lock().unwrap().remove(&i);
                        out.lock().unwrap().push(r);
                    }
                })
            })
            .collect();
        for w in workers {
            let _ = w.join();
        }
        done.store(true, Ordering::Relaxed);
    });
    let mut v = out.into_inner().unwrap();
    v.sort_by_key(|r| r.index);
    v
}

fn cmd_replay(args: &BTreeMap<String, String>) -> i32 {
    let path = match args.get("arg1") {
        Some(p) => p.clone(),
        None => {
            eprintln!("usage: raftsim replay <file>");
            return 2;
        }
    };
    let s = match std::fs::read_to_string(&path) {
        Ok(s) => s,
        Err(e) => {
            eprintln!("harness error: cannot read {path}: {e}");
            return 2;
        }
    };
    let rf: ReplayFile = match serde_json::from_str(&s) {
        Ok(r) => r,
        Err(e) => {
            eprintln!("harness error: cannot parse {path}: {e}");
            return 2;
        }
    };
    let focus: &'static str = Box::leak(rf.property.clone().into_boxed_str());
    if args.contains_key("verbose-last") {
        // debugging aid: replay quietly, then the last action with sub-step tracing (pipe through head)
        let mut w = World::new(rf.cluster.clone());
        w.focus = Some(focus);
        w.verbose = args.contains_key("verbose-all");
        let n = rf.actions.len();
        for (i, a) in rf.actions.iter().enumerate() {
            if i + 1 == n {
                for x in w.nodes.values().filter(|x| x.started) {
                    eprintln!("  n{} {} {:?} t{} commit{} applied{} last{} conf {:?}/{:?} learners {:?}", x.id, if x.running() { "up" } else { "DOWN" }, x.obs.role, x.obs.term, x.obs.commit, x.obs.applied, x.obs.last_index, x.obs.conf.voters, x.obs.conf.outgoing, x.obs.conf.learners);
                }
                w.verbose = true;
            }
            let _ = w.apply(a);
        }
        for x in w.nodes.values().filter(|x| x.started) {
            if let Some(raw) = x.raw.as_ref() {
                let r = &raw.raft;
                eprintln!("  end n{} {:?} t{} vote{} lead{} promotable {} elapsed {} rand_timeout {} commit{} applied{} last{} pending_conf_index {} conf {:?}", x.id, r.state, r.term, r.vote, r.leader_id, r.promotable(), r.election_elapsed, r.randomized_election_timeout(), r.raft_log.committed, r.raft_log.applied, r.raft_log.last_index(), r.pending_conf_index, r.prs().conf().to_conf_state());
                eprintln!("     prs {:?} snap_outstanding {:?} snap_handed {:?}", x.obs.prs.iter().map(|p| (p.id, format!("{:?}", p.state), p.matched, p.next_idx, p.pending_snapshot, p.pending_request_snapshot, p.paused)).collect::<Vec<_>>(), x.snap_outstanding, x.snap_handed);
                let lo = r.raft_log.first_index();
                let hi = r.raft_log.last_index();
                if let Ok(es) = r.raft_log.slice(lo, hi + 1, None, raft::GetEntriesContext::empty(false)) {
                    eprintln!("     log {:?}", es.iter().map(|e| (e.index, e.term, format!("{:?}", e.get_entry_type()), e.data.len())).collect::<Vec<_>>());
                }
            }
        }
        return 0;
    }
    let (v, _w) = replay(&rf.cluster, &rf.actions, Some(focus));
    match v {
        Some(v) if v.check == rf.expected.check => {
            println!("replayed {} actions: {} at step {} on node {}: {}", rf.actions.len(), v.check, v.step, v.node, v.detail);
            if v.step != rf.expected.step || v.sig != rf.expected.sig {
                println!("note: same check, different step/signature than recorded (step {} vs {}, sig {} vs {})", v.step, rf.expected.step, v.sig, rf.expected.sig);
            }
            println!("VIOLATION property={} replay={}", rf.property, path);
            1
        }
        Some(v) => {
            println!("replay produced a different violation: {} ({}) instead of {}", v.check, v.detail, rf.expected.check);
            println!("VIOLATION property={} replay={}", v.prop, path);
            1
        }
        None => {
            println!("replay diverged: no violation reproduced (expected {} at step {})", rf.expected.check, rf.expected.step);
            2
        }
    }
}

fn cmd_check(args: &BTreeMap<String, String>) -> i32 {
    let id = match args.get("arg1") {
        Some(p) => p.clone(),
        None => {
            eprintln!("usage: raftsim check <ID>");
            return 2;
        }
    };
    let tier = args.get("tier").cloned().or_else(|| std::env::var("VERIF_TIER").ok()).unwrap_or_else(|| "quick".into());
    let tier = if tier == "thorough" { "thorough" } else { "quick" };
    let spec = profiles::spec(&id);
    let seed = args.get("seed").and_then(|s| s.parse().ok()).unwrap_or_else(env_seed);
    let threads: usize = args.get("threads").and_then(|s| s.parse().ok()).unwrap_or(16);
    let runs: u64 = args
        .get("runs")
        .and_then(|s| s.parse().ok())
        .unwrap_or(if tier == "quick" { spec.quick_runs } else { spec.thorough_runs });
    let max_secs: u64 = args.get("secs").and_then(|s| s.parse().ok()).unwrap_or(if tier == "quick" { 240 } else { 1500 });
    let known = load_known_findings();
    let focus: &'static str = Box::leak(id.clone().into_boxed_str());
    let t0 = Instant::now();
    println!("raftsim check {id} tier={tier} seed={seed} runs={runs} profile={} threads={threads}", spec.profile.name);

    let mut agg_stats: BTreeMap<&'static str, u64> = BTreeMap::new();
    let mut agg_faults: BTreeMap<&'static str, u64> = BTreeMap::new();
    let mut distinct: BTreeSet<u64> = BTreeSet::new();
    let mut distinct_nontrivial: BTreeSet<u64> = BTreeSet::new();
    let mut states: BTreeSet<u64> = BTreeSet::new();
    let mut samples: Vec<serde_json::Value> = Vec::new();
    let mut evaluations = 0u64;
    let mut actions_total = 0u64;
    let mut sim_us_total = 0u64;
    let mut other_prop: BTreeMap<String, u64> = BTreeMap::new();
    let mut suppressed_total: BTreeMap<String, u64> = BTreeMap::new();
    let mut known_hit: BTreeMap<String, u64> = BTreeMap::new();
    let mut violation: Option<(RunSummary, Violation)> = None;
    let mut harness_error: Option<String> = None;
    let mut timed_out = false;

    // stored reproductions of the open known findings of this property: replayed on every run, so that the
    // KNOWN-FINDING line does not depend on the random search hitting the finding within the budget
    for k in known.iter().filter(|k| k.property == id && k.status.starts_with("open") && !k.replay.is_empty()) {
        match std::fs::read_to_string(&k.replay).ok().and_then(|s| serde_json::from_str::<ReplayFile>(&s).ok()) {
            Some(rf) => {
                let (v, w) = replay(&rf.cluster, &rf.actions, Some(focus));
                if let Some(v) = v {
                    if finding_matches(k, &v, !w.ghost.tainted_terms.is_empty() || !w.ghost.stale_conf_elections.is_empty()) {
                        *known_hit.entry(k.description.clone()).or_insert(0) += 1;
                    } else if v.prop == id {
                        println!("stored reproduction {} now fails differently: {} {}", k.replay, v.check, v.detail);
                    }
                }
            }
            None => {
                eprintln!("harness error: cannot read stored reproduction {}", k.replay);
                return 2;
            }
        }
    }
    // directed (scripted, PRNG-free) scenarios of this property: hand-written schedules for races that the
    // random profiles do not reach within their budgets
    let mut scripted_violation: Option<(String, Vec<Action>, ClusterCfg, Violation)> = None;
    let mut scripted_run = 0u64;
    for (name, f) in scripted::for_property(&id) {
        let mut sc = scripted::Script::with_focus(f, focus);
        scripted_run += 1;
        if let Some(v) = sc.violation.take() {
            if v.prop == "HARNESS" {
                eprintln!("harness error: scripted scenario {name}: {}", v.detail);
                return 2;
            }
            if v.prop == id && !known.iter().any(|k| finding_matches(k, &v, false)) {
                scripted_violation = Some((name.to_string(), sc.trace.clone(), sc.world.cfg.clone(), v));
                break;
            }
        }
    }
    let chunk = 256u64;
    let mut from = 0u64;
    'outer: while from < runs && scripted_violation.is_none() {
        let to = (from + chunk).min(runs);
        let results = run_batch(&spec.profile, seed, from, to, threads, from == 0, Some(focus));
        for r in results {
            evaluations += 1;
            actions_total += r.actions as u64;
            sim_us_total += r.sim_time_us;
            for (k, v) in &r.stats {
                *agg_stats.entry(k).or_insert(0) += v;
            }
            for (k, v) in &r.faults {
                *agg_faults.entry(k).or_insert(0) += v;
            }
            distinct.insert(r.trace_hash);
            if (spec.nontrivial)(&r.stats, &r.faults) {
                distinct_nontrivial.insert(r.trace_hash);
            }
            states.extend(r.states.iter().cloned());
            for (k, v) in &r.suppressed {
                *suppressed_total.entry(k.to_string()).or_insert(0) += v;
            }
            if let Some(s) = &r.sample {
                if samples.len() < 2 {
                    samples.push(s.clone());
                }
            }
            if let Some(v) = r.violation.clone() {
                if v.prop == "HARNESS" {
                    harness_error = Some(format!("run {} (seed {}): {}", r.index, r.run_seed, v.detail));
                    break 'outer;
                }
                if let Some(k) = known.iter().find(|k| finding_matches(k, &v, r.tainted) && k.property == id) {
                    *known_hit.entry(k.description.clone()).or_insert(0) += 1;
                    continue;
                }
                if v.prop == id {
                    violation = Some((r, v));
                    break 'outer;
                }
                // a violation of another property ends that run; tallied, decided by its own check
                let is_known_other = known.iter().any(|k| finding_matches(k, &v, r.tainted));
                let key = format!("{}{}", v.check, if is_known_other { " (known finding)" } else { "" });
                *other_prop.entry(key).or_insert(0) += 1;
            }
        }
        from = to;
        if t0.elapsed().as_secs() > max_secs {
            timed_out = true;
            break;
        }
    }

    for (desc, cnt) in &known_hit {
        println!("KNOWN-FINDING: property={id} {desc} (hit in {cnt} runs)");
    }
    for (k, c) in &other_prop {
        println!("note: {c} runs ended by a monitor of another property: {k}");
    }
    for (k, c) in &suppressed_total {
        println!("note: {c} firings of another property's monitor (run continued): {k}");
    }
    if let Some(e) = &harness_error {
        eprintln!("harness error: {e}");
        return 2;
    }

    let mut violations = 0;
    let mut replay_path = String::new();
    if let Some((name, trace, cluster, v)) = &scripted_violation {
        violations = 1;
        println!("violation in scripted scenario {name}: {} at step {} on node {}: {}", v.check, v.step, v.node, v.detail);
        let dir = std::env::var("VERIF_REPLAY_DIR").unwrap_or_else(|_| "/verif/replays".to_string());
        let _ = std::fs::create_dir_all(&dir);
        let cut = (v.step as usize).min(trace.len());
        let rf = ReplayFile {
            property: id.clone(),
            profile: format!("scripted:{name}"),
            seed,
            run_index: 0,
            run_seed: 0,
            minimised: false,
            original_actions: trace.len(),
            cluster: cluster.clone(),
            actions: trace[..cut].to_vec(),
            expected: Expected { property: v.prop.to_string(), check: v.check.to_string(), step: v.step, node: v.node, sig: v.sig.clone(), detail: v.detail.clone() },
        };
        replay_path = format!("{dir}/{id}-scripted-{name}.json");
        let _ = std::fs::write(&replay_path, serde_json::to_string_pretty(&rf).unwrap());
    }
    if let Some((r, v)) = &violation {
        violations = 1;
        let (cluster, trace) = r.trace.clone().unwrap();
        println!("violation in run {} (run seed {}): {} at step {} on node {}: {}", r.index, r.run_seed, v.check, v.step, v.node, v.detail);
        let budget = if tier == "quick" { 20 } else { 60 };
        let (min_trace, mv) = minimise::minimise(&cluster, &trace, v, budget, Some(focus));
        println!("minimised {} -> {} actions: {}", trace.len(), min_trace.len(), mv.detail);
        let dir = std::env::var("VERIF_REPLAY_DIR").unwrap_or_else(|_| "/verif/replays".to_string());
        let _ = std::fs::create_dir_all(&dir);
        let mk = |actions: &Vec<Action>, vv: &Violation, minimised: bool| ReplayFile {
            property: id.clone(),
            profile: spec.profile.name.to_string(),
            seed,
            run_index: r.index,
            run_seed: r.run_seed,
            minimised,
            original_actions: trace.len(),
            cluster: cluster.clone(),
            actions: actions.clone(),
            expected: Expected { property: vv.prop.to_string(), check: vv.check.to_string(), step: vv.step, node: vv.node, sig: vv.sig.clone(), detail: vv.detail.clone() },
        };
        let full_path = format!("{dir}/{id}-{seed}-{}-full.json", r.index);
        let _ = std::fs::write(&full_path, serde_json::to_string(&mk(&trace, v, false)).unwrap());
        replay_path = format!("{dir}/{id}-{seed}-{}.json", r.index);
        let _ = std::fs::write(&replay_path, serde_json::to_string_pretty(&mk(&min_trace, &mv, true)).unwrap());
    }

    let wall = t0.elapsed().as_secs_f64();
    let checks: BTreeMap<String, u64> = agg_stats.iter().filter(|(k, _)| k.starts_with("chk.")).map(|(k, v)| (k[4..].to_string(), *v)).collect();
    let probes: BTreeMap<String, u64> = agg_stats.iter().filter(|(k, _)| !k.starts_with("chk.")).map(|(k, v)| (k.to_string(), *v)).collect();
    let evidence = serde_json::json!({
        "property_id": id,
        "tier": tier,
        "seed": seed,
        "level": "exploration",
        "wall_s": wall,
        "violations": violations,
        "coverage": {
            "evaluations": evaluations + scripted_run,
            "scripted_scenarios_run": scripted::for_property(&id).iter().map(|x| x.0).collect::<Vec<_>>(),
            "distinct_nontrivial": distinct_nontrivial.len(),
            "rule": format!("one evaluation = one seeded simulated run of a whole cluster (profile '{}'); distinct = new abstract trace hash (sequence of action kind, node, role-after with ids and payloads erased); non-trivial for {}: {}", spec.profile.name, id, spec.rule),
            "samples": samples,
            "distinct_traces": distinct.len(),
            "distinct_abstract_states": states.len(),
            "actions_total": actions_total,
            "simulated_seconds_total": sim_us_total as f64 / 1e6,
            "runs_per_hour": if wall > 0.0 { (evaluations as f64 / wall * 3600.0) as u64 } else { 0 },
            "seeds": format!("run seed i = mix(VERIF_SEED={seed}, i) for i in 0..{evaluations}"),
            "faults_fired": agg_faults,
            "checks_evaluated": checks,
            "probes": probes,
            "ended_by_other_property": other_prop,
            "other_property_firings_not_ending_the_run": suppressed_total,
            "known_findings_hit": known_hit,
            "budget_exhausted_before_all_runs": timed_out,
            "components": {
                "real_code": ["raft::RawNode / Raft / RaftLog / Unstable / ProgressTracker / Progress / Inflights / quorum / confchange / ReadOnly / Config::validate / util", "raft::storage::MemStorage (volatile layer of every simulated disk, recovery path)", "raft-proto message and conf-change types, protobuf sizes"],
                "stubs": ["transport (bag of in-flight messages, drop/dup/delay/reorder/partition)", "clock (per-node tick source with skew, jumps, stalls)", "disk (write queue + durable image; crash keeps a prefix, torn entries batch)", "Storage::snapshot (served from the application's applied state)", "application (Ready loop in three modes, state machine = hash chain + ConfState)", "clients and operator", "logger (discard)"]
            }
        },
        "assumptions": [
            "sampling, not proof: no violation in the explored seeded executions of this shape",
            "fsync does not lie; durable bytes are not corrupted; messages are delivered bit-identical (possibly stale, duplicated, reordered)",
            "the simulated application follows the documented Ready/advance contract (self-checked; a harness self-check failure exits 2)",
            "64-bit digests identify entries"
        ]
    });
    let ev_dir = std::env::var("VERIF_EVIDENCE_DIR").unwrap_or_else(|_| "/verif/evidence".to_string());
    let _ = std::fs::create_dir_all(&ev_dir);
    if let Err(e) = std::fs::write(format!("{ev_dir}/{id}.json"), serde_json::to_string_pretty(&evidence).unwrap()) {
        eprintln!("harness error: cannot write evidence: {e}");
        return 2;
    }
    println!(
        "{id}: {evaluations} runs, {} distinct non-trivial, {} actions, {:.1} simulated s, {:.1}s wall, {} abstract states",
        distinct_nontrivial.len(), actions_total, sim_us_total as f64 / 1e6, wall, states.len()
    );
    if violations > 0 {
        println!("VIOLATION property={id} replay={replay_path}");
        return 1;
    }
    0
}

fn cmd_triage(args: &BTreeMap<String, String>) -> i32 {
    let pid = args.get("profile").cloned().unwrap_or_else(|| "C01".into());
    let spec = profiles::spec(&pid);
    let seed = args.get("seed").and_then(|s| s.parse().ok()).unwrap_or_else(env_seed);
    let runs: u64 = args.get("runs").and_then(|s| s.parse().ok()).unwrap_or(2000);
    let results = run_batch(&spec.profile, seed, 0, runs, 16, false, focus_of(args));
    let mut classes: BTreeMap<(String, String), (u64, u64, String)> = BTreeMap::new();
    for r in &results {
        if let Some(v) = &r.violation {
            let e = classes.entry((v.check.to_string(), v.sig.clone())).or_insert((0, r.index, v.detail.clone()));
            e.0 += 1;
        }
    }
    for ((c, s), (n, idx, d)) in &classes {
        println!("{n:6} {c} [{s}] first run {idx}: {d}");
    }
    0
}

fn cmd_scenario(args: &BTreeMap<String, String>) -> i32 {
    let name = args.get("arg1").cloned().unwrap_or_default();
    let s = match name.as_str() {
        "s3" => scripted::s3(),
        "s3_divergence" => match args.get("focus").map(|x| x.as_str()) {
            Some("C01") => scripted::Script::with_focus(scripted::s3_divergence, "C01"),
            Some("C03") => scripted::Script::with_focus(scripted::s3_divergence, "C03"),
            Some("C05") => scripted::Script::with_focus(scripted::s3_divergence, "C05"),
            _ => scripted::s3_divergence(),
        },
        "persist_notice_after_truncation" => scripted::persist_notice_after_truncation(),
        "duplicate_forwarded_read" => scripted::duplicate_forwarded_read(),
        "elected_with_unreported_membership_entry" => scripted::elected_with_unreported_membership_entry(),
        "persist_notice_covers_two_readies_after_truncation" => scripted::persist_notice_covers_two_readies_after_truncation(),
        "elected_before_persistence_is_reported" => scripted::elected_before_persistence_is_reported(),
        "stale_persist_notice_on_reelected_leader" => scripted::stale_persist_notice_on_reelected_leader(),
        "persist_notice_after_truncating_ready" => scripted::persist_notice_after_truncating_ready(),
        _ => {
            eprintln!("usage: raftsim scenario s3 [--write file] [--states]");
            return 2;
        }
    };
    println!("scenario {name}: {} actions", s.trace.len());
    if args.contains_key("verbose") {
        let mut w = World::new(s.world.cfg.clone());
        w.verbose = true;
        for (i, a) in s.trace.iter().enumerate() {
            eprintln!("#{} {}", i + 1, serde_json::to_string(a).unwrap());
            let _ = w.apply(a);
            if let Some(wn) = args.get("watch").and_then(|s| s.parse::<u64>().ok()) {
                if let Some(x) = w.nodes.get(&wn) {
                    let o = &x.obs;
                    eprintln!("      n{} {:?} t{} commit{} persisted{} last{} prs {:?} notify_queue {:?} outstanding {}", wn, o.role, o.term, o.commit, o.persisted, o.last_index, o.prs.iter().map(|p| (p.id, p.matched, p.next_idx)).collect::<Vec<_>>(), x.notify_queue, x.outstanding.len());
                }
            }
        }
    }
    if args.contains_key("states") {
        for x in s.world.nodes.values() {
            if x.started {
                println!("  n{} {} {:?} t{} commit{} applied{} last{} conf {:?}", x.id, if x.running() { "up" } else { "DOWN" }, x.obs.role, x.obs.term, x.obs.commit, x.obs.applied, x.obs.last_index, x.obs.conf.voters);
            }
        }
    }
    match &s.violation {
        Some(v) => {
            println!("violation {} {} node {} step {}: {}", v.prop, v.check, v.node, v.step, v.detail);
            println!("tainted by the stale-configuration precondition: {}", !s.world.ghost.tainted_terms.is_empty() || !s.world.ghost.stale_conf_elections.is_empty());
            if let Some(path) = args.get("write") {
                let rf = ReplayFile {
                    property: v.prop.to_string(),
                    profile: format!("scripted:{name}"),
                    seed: 0,
                    run_index: 0,
                    run_seed: 0,
                    minimised: false,
                    original_actions: s.trace.len(),
                    cluster: s.world.cfg.clone(),
                    actions: s.trace.clone(),
                    expected: Expected { property: v.prop.to_string(), check: v.check.to_string(), step: v.step, node: v.node, sig: v.sig.clone(), detail: v.detail.clone() },
                };
                std::fs::write(path, serde_json::to_string_pretty(&rf).unwrap()).unwrap();
                println!("replay written to {path}");
            }
            1
        }
        None => {
            println!("no violation");
            0
        }
    }
}

/// Search a profile for the first run whose violation signature starts with --sig, minimise it and write
/// the replay file (used to store reproductions of open known findings).
fn cmd_find(args: &BTreeMap<String, String>) -> i32 {
    let pid = args.get("profile").cloned().unwrap_or_else(|| "C01".into());
    let spec = profiles::spec(&pid);
    let seed = args.get("seed").and_then(|s| s.parse().ok()).unwrap_or_else(env_seed);
    let runs: u64 = args.get("runs").and_then(|s| s.parse().ok()).unwrap_or(100000);
    let sig = args.get("sig").cloned().unwrap_or_default();
    let out = args.get("write").cloned().unwrap_or_else(|| "/tmp/found.json".into());
    let focus = focus_of(args);
    let mut from = 0;
    while from < runs {
        let to = (from + 2048).min(runs);
        let results = run_batch(&spec.profile, seed, from, to, 16, false, focus);
        for r in results {
            if let Some(v) = &r.violation {
                if v.sig.starts_with(&sig) {
                    let r2 = run_one(&spec.profile, seed, r.index, true, false, focus);
                    let (cluster, trace) = r2.trace.unwrap();
                    let (min_trace, mv) = minimise::minimise(&cluster, &trace, v, 60, focus);
                    let rf = ReplayFile {
                        property: mv.prop.to_string(),
                        profile: spec.profile.name.to_string(),
                        seed,
                        run_index: r.index,
                        run_seed: r.run_seed,
                        minimised: true,
                        original_actions: trace.len(),
                        cluster,
                        actions: min_trace.clone(),
                        expected: Expected { property: mv.prop.to_string(), check: mv.check.to_string(), step: mv.step, node: mv.node, sig: mv.sig.clone(), detail: mv.detail.clone() },
                    };
                    std::fs::write(&out, serde_json::to_string(&rf).unwrap()).unwrap();
                    println!("found in run {} ({} -> {} actions): {} [{}] {}", r.index, trace.len(), min_trace.len(), mv.check, mv.sig, mv.detail);
                    return 0;
                }
            }
        }
        from = to;
    }
    println!("not found in {runs} runs");
    1
}

/// `raftsim minimise <replay file> --write <out> [--secs N]`: re-minimise a stored trace with the current monitors.
fn cmd_minimise(args: &BTreeMap<String, String>) -> i32 {
    let path = args.get("arg1").cloned().unwrap_or_default();
    let out = args.get("write").cloned().unwrap_or_else(|| "/tmp/minimised.json".into());
    let secs: u64 = args.get("secs").and_then(|s| s.parse().ok()).unwrap_or(120);
    let mut rf: ReplayFile = match std::fs::read_to_string(&path).ok().and_then(|s| serde_json::from_str(&s).ok()) {
        Some(r) => r,
        None => {
            eprintln!("harness error: cannot read {path}");
            return 2;
        }
    };
    let focus: &'static str = Box::leak(rf.property.clone().into_boxed_str());
    let (v, _w) = replay(&rf.cluster, &rf.actions, Some(focus));
    let v = match v {
        Some(v) => v,
        None => {
            println!("no violation reproduced");
            return 2;
        }
    };
    let (min_trace, mv) = minimise::minimise(&rf.cluster, &rf.actions, &v, secs, Some(focus));
    println!("{} -> {} actions: {} [{}] {}", rf.actions.len(), min_trace.len(), mv.check, mv.sig, mv.detail);
    rf.minimised = true;
    rf.actions = min_trace;
    rf.expected = Expected { property: mv.prop.to_string(), check: mv.check.to_string(), step: mv.step, node: mv.node, sig: mv.sig.clone(), detail: mv.detail.clone() };
    std::fs::write(&out, serde_json::to_string_pretty(&rf).unwrap()).unwrap();
    0
}
