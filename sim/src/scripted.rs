//! Scripted scenarios (no PRNG): hand-written action sequences that reproduce findings which the random
//! profiles do not reach within their budgets. `raftsim scenario <name> [--write <replay file>]`.

use std::collections::BTreeMap;

use crate::action::*;
use crate::world::{Violation, World};

pub struct Script {
    pub world: World,
    pub trace: Vec<Action>,
    pub violation: Option<Violation>,
}

thread_local! {
    static SCRIPT_FOCUS: std::cell::Cell<Option<&'static str>> = std::cell::Cell::new(None);
}

impl Script {
    pub fn new(cluster: ClusterCfg) -> Script {
        let mut world = World::new(cluster);
        world.focus = SCRIPT_FOCUS.with(|f| f.get());
        Script { world, trace: Vec::new(), violation: None }
    }
    /// Run a scripted scenario with the monitors in focus mode for one property.
    pub fn with_focus(f: fn() -> Script, focus: &'static str) -> Script {
        SCRIPT_FOCUS.with(|c| c.set(Some(focus)));
        let s = f();
        SCRIPT_FOCUS.with(|c| c.set(None));
        s
    }
    pub fn act(&mut self, a: Action) -> bool {
        if self.violation.is_some() {
            return false;
        }
        self.trace.push(a.clone());
        if let Err(v) = self.world.apply(&a) {
            self.violation = Some(v);
            return false;
        }
        true
    }
    /// Deliver every in-flight message among `set`, run Sync rounds, until nothing moves.
    pub fn settle(&mut self, set: &[NodeId]) {
        for _ in 0..50 {
            let keys: Vec<MsgKey> = self.world.flights.keys().filter(|k| set.contains(&k.f) && set.contains(&k.t)).cloned().collect();
            let mut moved = !keys.is_empty();
            for k in keys {
                if !self.act(Action::Deliver { k }) {
                    return;
                }
            }
            for n in set {
                let has = self.world.nodes.get(n).and_then(|x| x.raw.as_ref()).map(|r| r.has_ready()).unwrap_or(false);
                if has {
                    moved = true;
                    if !self.act(Action::AppReady { n: *n, mode: Mode::Sync, skip_fsync: false, force: false }) {
                        return;
                    }
                }
            }
            if !moved {
                break;
            }
        }
    }
}

fn cluster(voters: Vec<NodeId>, universe: u64) -> ClusterCfg {
    let mut nodes = BTreeMap::new();
    for id in 1..=universe {
        nodes.insert(id, NodeCfg { election_tick: 10, heartbeat_tick: 1, ..NodeCfg::default() });
    }
    ClusterCfg { voters, learners: vec![], initial_index: 0, initial_term: 0, nodes, timeout_salt: 7 }
}

impl Script {
    pub fn deliver_where(&mut self, f: impl Fn(&MsgKey, &raft::eraftpb::Message) -> bool) -> usize {
        let keys: Vec<MsgKey> = self.world.flights.iter().filter(|(k, fl)| f(k, &fl.msg)).map(|(k, _)| *k).collect();
        let n = keys.len();
        for k in keys {
            self.act(Action::Deliver { k });
        }
        n
    }
    pub fn drop_where(&mut self, f: impl Fn(&MsgKey, &raft::eraftpb::Message) -> bool) {
        let keys: Vec<MsgKey> = self.world.flights.iter().filter(|(k, fl)| f(k, &fl.msg)).map(|(k, _)| *k).collect();
        for k in keys {
            self.act(Action::Drop { k });
        }
    }
    pub fn sync_round(&mut self, n: NodeId) {
        self.act(Action::AppReady { n, mode: Mode::Sync, skip_fsync: false, force: false });
    }
}

/// S3: stale-configuration election after a torn write. Voters {1,2,3}; `add 4` (index 2) and `add 5`
/// (index 3) commit on {1,2,4(,5)}; node 3 receives both entries, but crashes after the entries of the
/// Ready that carried index 3 reached the disk and before its HardState (commit index 2) did, so it
/// restarts with entries 1..3, commit 1, applied 1 and configuration {1,2,3}. Under the partition
/// {2,3} | {1,4,5} node 3 wins term 2 with the votes {3,2} (a majority of the two-changes-old
/// configuration; the campaign check only scans (applied, committed]) while node 5 wins term 2 with
/// {5,1,4}.
pub fn s3() -> Script {
    use raft::eraftpb::MessageType as T;
    let mut s = Script::new(cluster(vec![1, 2, 3], 5));
    s.act(Action::Campaign { n: 1 });
    s.settle(&[1, 2, 3]); // node 1 leads term 1; index 1 committed, applied and durable on 1, 2, 3
    // ---- A = add 4 (index 2): replicated to 2 and 3, committed; node 3 never learns the commit
    s.act(Action::ProposeConf { n: 1, id: 1, v1: false, transition: 0, changes: vec![(0, 4)] });
    s.sync_round(1);
    s.deliver_where(|k, m| k.f == 1 && m.get_msg_type() == T::MsgAppend && !m.entries.is_empty());
    s.sync_round(2);
    s.act(Action::AppReady { n: 3, mode: Mode::Async, skip_fsync: false, force: false });
    s.act(Action::Fsync { n: 3, count: u32::MAX, defer: false });
    s.deliver_where(|k, m| k.t == 1 && m.get_msg_type() == T::MsgAppendResponse);
    s.sync_round(1); // commit 2, applied: configuration {1,2,3,4}
    s.drop_where(|k, _| k.t == 3); // node 3 does not hear about commit 2
    s.act(Action::StartNode { n: 4 });
    for _ in 0..6 {
        s.drop_where(|k, _| k.t == 3);
        s.settle(&[1, 2, 4]);
        s.act(Action::Tick { n: 1 });
    }
    s.drop_where(|k, _| k.t == 3 || k.f == 3);
    // ---- B = add 5 (index 3): committed by {1,2,4}; node 3 gets the entry (with commit 2) but only
    // the entries of that Ready become durable
    s.act(Action::ProposeConf { n: 1, id: 2, v1: false, transition: 0, changes: vec![(0, 5)] });
    s.sync_round(1);
    s.deliver_where(|k, m| k.f == 1 && k.t == 3 && m.get_msg_type() == T::MsgAppend && m.entries.iter().any(|e| e.index == 3));
    s.act(Action::AppReady { n: 3, mode: Mode::Async, skip_fsync: false, force: false });
    s.act(Action::Crash { n: 3, keep: 1, torn: 0 });
    s.drop_where(|k, _| k.t == 3 || k.f == 3);
    s.settle(&[1, 2, 4]);
    s.act(Action::StartNode { n: 5 });
    for _ in 0..8 {
        s.drop_where(|k, _| k.t == 3 || k.f == 3);
        s.settle(&[1, 2, 4, 5]);
        s.act(Action::Tick { n: 1 });
    }
    s.drop_where(|k, _| k.t == 3 || k.f == 3);
    s.act(Action::Restart { n: 3 });
    // ---- partition {2,3} | {1,4,5}; elections on both sides
    s.act(Action::Campaign { n: 3 });
    s.sync_round(3);
    s.deliver_where(|k, m| k.f == 3 && k.t == 2 && m.get_msg_type() == T::MsgRequestVote);
    s.sync_round(2);
    s.deliver_where(|k, m| k.f == 2 && k.t == 3 && m.get_msg_type() == T::MsgRequestVoteResponse);
    s.sync_round(3); // node 3 leads term 2 under configuration {1,2,3}
    s.act(Action::Campaign { n: 5 });
    s.sync_round(5);
    s.deliver_where(|k, m| k.f == 5 && (k.t == 1 || k.t == 4) && m.get_msg_type() == T::MsgRequestVote);
    s.sync_round(1);
    s.sync_round(4);
    s.deliver_where(|k, m| k.t == 5 && m.get_msg_type() == T::MsgRequestVoteResponse);
    s
}

/// S3 continued: both leaders of term 2 replicate and commit a different proposal at index 5, each with a
/// majority of its own configuration ({3,2} of {1,2,3}; {5,1,4} of {1,..,5}); then node 1, which holds node 5's
/// version, is elected for term 3. Shows the consequences of the stale-configuration election for C01
/// (different entries committed at one index), C05 (same index and term, different entry) and C03 (a leader
/// without an entry that was committed before its election).
pub fn s3_divergence() -> Script {
    use raft::eraftpb::MessageType as T;
    let mut s = s3();
    let side_a = |k: &MsgKey| (k.f == 3 && k.t == 2) || (k.f == 2 && k.t == 3);
    let side_b = |k: &MsgKey| [1u64, 4, 5].contains(&k.f) && [1u64, 4, 5].contains(&k.t);
    // side A: node 3 appends its proposal right behind its no-op, so that both are acknowledged by node 2 and
    // committed in one step, while node 3 still runs the configuration {1,2,3} it was elected with
    s.act(Action::Propose { n: 3, id: 101, size: 16 });
    s.sync_round(3);
    s.drop_where(|k, _| !side_a(k) && !side_b(k));
    s.deliver_where(|k, m| k.f == 3 && k.t == 2 && m.get_msg_type() == T::MsgAppend);
    s.sync_round(2);
    // the acknowledgement of the no-op alone is lost; a heartbeat round lets node 3 probe again with both entries
    s.drop_where(|k, m| k.f == 2 && k.t == 3 && m.get_msg_type() == T::MsgAppendResponse);
    s.act(Action::Tick { n: 3 });
    s.sync_round(3);
    s.drop_where(|k, _| !side_a(k) && !side_b(k));
    s.deliver_where(|k, m| k.f == 3 && k.t == 2 && m.get_msg_type() == T::MsgHeartbeat);
    s.sync_round(2);
    s.deliver_where(|k, m| k.f == 2 && k.t == 3 && m.get_msg_type() == T::MsgHeartbeatResponse);
    s.sync_round(3);
    s.deliver_where(|k, m| k.f == 3 && k.t == 2 && m.get_msg_type() == T::MsgAppend);
    s.sync_round(2);
    s.drop_where(|k, m| k.f == 2 && k.t == 3 && m.get_msg_type() == T::MsgAppendResponse && m.index < 5);
    s.deliver_where(|k, m| k.f == 2 && k.t == 3 && m.get_msg_type() == T::MsgAppendResponse);
    s.sync_round(3);
    // side B: node 5 commits its own proposal at index 5 with {5, 1, 4}
    s.sync_round(5);
    s.act(Action::Propose { n: 5, id: 102, size: 24 });
    for _ in 0..6 {
        s.drop_where(|k, _| !side_b(k));
        s.settle(&[1, 4, 5]);
    }
    // node 1 (holding node 5's version of index 5) wins term 3 with {1, 4, 5}
    s.act(Action::Campaign { n: 1 });
    s.sync_round(1);
    s.drop_where(|k, _| k.t == 2 || k.t == 3);
    s.deliver_where(|k, m| k.f == 1 && m.get_msg_type() == T::MsgRequestVote);
    s.sync_round(4);
    s.sync_round(5);
    s.deliver_where(|k, m| k.t == 1 && m.get_msg_type() == T::MsgRequestVoteResponse);
    s.sync_round(1);
    s
}

/// C07 race: a persistence notice for an in-flight Ready arrives after a new leader's append truncated the
/// unstable log back to exactly the last index of that Ready (and carried a commit index covering it),
/// and before the next Ready is taken. The entry at that index must not be handed out for apply: it is
/// the new, unpersisted one. Five voters; node 3 persists asynchronously and reports persistence late
/// (`Fsync{defer}` + `Notify`).
pub fn persist_notice_after_truncation() -> Script {
    use raft::eraftpb::MessageType as T;
    let mut s = Script::new(cluster(vec![1, 2, 3, 4, 5], 5));
    s.act(Action::Campaign { n: 1 });
    s.settle(&[1, 2, 3, 4, 5]);
    // entry 2 of term 1 reaches node 3 only, which writes it without fsync
    s.act(Action::Propose { n: 1, id: 1, size: 8 });
    s.sync_round(1);
    s.deliver_where(|k, m| k.f == 1 && k.t == 3 && m.get_msg_type() == T::MsgAppend);
    s.act(Action::AppReady { n: 3, mode: Mode::Async, skip_fsync: false, force: false });
    s.drop_where(|k, _| k.f == 1);
    // node 1 is cut off; node 2 wins term 2 with {2,4,5} and commits its entry at index 2
    s.act(Action::Campaign { n: 2 });
    s.sync_round(2);
    s.deliver_where(|k, m| k.f == 2 && (k.t == 4 || k.t == 5) && m.get_msg_type() == T::MsgRequestVote);
    s.drop_where(|k, _| k.f == 2 && (k.t == 1 || k.t == 3));
    s.sync_round(4);
    s.sync_round(5);
    s.deliver_where(|k, _| k.t == 2);
    s.sync_round(2);
    for _ in 0..4 {
        s.drop_where(|k, _| k.t == 1 || k.t == 3 || k.f == 1 || k.f == 3);
        s.settle(&[2, 4, 5]);
    }
    s.drop_where(|k, _| k.t == 1 || k.t == 3);
    // heartbeat reaches node 3; its answer needs the in-flight writes to be durable; the application
    // sends the answer as soon as the write finished and tells raft later
    s.act(Action::Tick { n: 2 });
    s.sync_round(2);
    s.deliver_where(|k, m| k.f == 2 && k.t == 3 && m.get_msg_type() == T::MsgHeartbeat);
    s.drop_where(|k, _| k.t == 1);
    s.act(Action::AppReady { n: 3, mode: Mode::Async, skip_fsync: false, force: false });
    s.act(Action::Fsync { n: 3, count: u32::MAX, defer: true });
    s.deliver_where(|k, m| k.f == 3 && k.t == 2 && m.get_msg_type() == T::MsgHeartbeatResponse);
    s.sync_round(2);
    // the leader's append: anchored at index 1, entry 2 of term 2, commit 2 -> truncates node 3's log at 2
    s.deliver_where(|k, m| k.f == 2 && k.t == 3 && m.get_msg_type() == T::MsgAppend);
    s.act(Action::Notify { n: 3 });
    s.act(Action::AppReady { n: 3, mode: Mode::Async, skip_fsync: false, force: false });
    s.act(Action::Fsync { n: 3, count: u32::MAX, defer: false });
    s.settle(&[2, 3, 4, 5]);
    s
}

/// Variant of the race above: the truncating append is first turned into a Ready of its own (written, not
/// fsynced) and only then the persistence notice of the older Ready arrives: its record (index 2, term 1) now
/// meets a different entry (index 2, term 2) whose write has not been reported.
pub fn persist_notice_after_truncating_ready() -> Script {
    use raft::eraftpb::MessageType as T;
    let mut s = Script::new(cluster(vec![1, 2, 3, 4, 5], 5));
    s.act(Action::Campaign { n: 1 });
    s.settle(&[1, 2, 3, 4, 5]);
    s.act(Action::Propose { n: 1, id: 1, size: 8 });
    s.sync_round(1);
    s.deliver_where(|k, m| k.f == 1 && k.t == 3 && m.get_msg_type() == T::MsgAppend);
    s.act(Action::AppReady { n: 3, mode: Mode::Async, skip_fsync: false, force: false });
    s.drop_where(|k, _| k.f == 1);
    s.act(Action::Campaign { n: 2 });
    s.sync_round(2);
    s.deliver_where(|k, m| k.f == 2 && (k.t == 4 || k.t == 5) && m.get_msg_type() == T::MsgRequestVote);
    s.drop_where(|k, _| k.f == 2 && (k.t == 1 || k.t == 3));
    s.sync_round(4);
    s.sync_round(5);
    s.deliver_where(|k, _| k.t == 2);
    s.sync_round(2);
    for _ in 0..4 {
        s.drop_where(|k, _| k.t == 1 || k.t == 3 || k.f == 1 || k.f == 3);
        s.settle(&[2, 4, 5]);
    }
    s.drop_where(|k, _| k.t == 1 || k.t == 3);
    s.act(Action::Tick { n: 2 });
    s.sync_round(2);
    s.deliver_where(|k, m| k.f == 2 && k.t == 3 && m.get_msg_type() == T::MsgHeartbeat);
    s.drop_where(|k, _| k.t == 1);
    s.act(Action::AppReady { n: 3, mode: Mode::Async, skip_fsync: false, force: false });
    s.act(Action::Fsync { n: 3, count: u32::MAX, defer: true });
    s.deliver_where(|k, m| k.f == 3 && k.t == 2 && m.get_msg_type() == T::MsgHeartbeatResponse);
    s.sync_round(2);
    // the truncating append becomes a Ready of its own, written to the page cache only
    s.deliver_where(|k, m| k.f == 2 && k.t == 3 && m.get_msg_type() == T::MsgAppend);
    s.act(Action::AppReady { n: 3, mode: Mode::Async, skip_fsync: false, force: false });
    // now the application tells raft about the older write
    s.act(Action::Notify { n: 3 });
    s.act(Action::AppReady { n: 3, mode: Mode::Async, skip_fsync: false, force: false });
    s.act(Action::Apply { n: 3, count: u32::MAX });
    s.act(Action::Fsync { n: 3, count: u32::MAX, defer: false });
    s.settle(&[2, 3, 4, 5]);
    s
}

/// C04: a stale persistence notice reaches a re-elected leader. Node 1 (leader of term 1) has written entries
/// 2..4 of term 1 but not yet told raft; it is deposed, its tail is overwritten by the term-2 leader, it is
/// elected again for term 3 and appends 3..5 of term 3 (written to the page cache only). Then the notice for
/// the term-1 write arrives on its own (`NotifyOne`). The leader must not count itself for index 4.
pub fn stale_persist_notice_on_reelected_leader() -> Script {
    use raft::eraftpb::MessageType as T;
    let mut s = Script::new(cluster(vec![1, 2, 3], 3));
    let round = |s: &mut Script, n: NodeId| {
        s.act(Action::AppReady { n, mode: Mode::Async, skip_fsync: false, force: false });
        s.act(Action::Fsync { n, count: u32::MAX, defer: true });
    };
    s.act(Action::Campaign { n: 1 });
    s.settle(&[1, 2, 3]);
    for id in 1..=3 {
        s.act(Action::Propose { n: 1, id, size: 8 });
    }
    round(&mut s, 1); // entries 2..4 of term 1 durable, raft not told
    s.drop_where(|k, _| k.f == 1);
    // node 2 wins term 2 with node 3, commits its entry at index 2
    s.act(Action::Campaign { n: 2 });
    s.sync_round(2);
    s.drop_where(|k, _| k.f == 2 && k.t == 1);
    s.deliver_where(|k, m| k.f == 2 && k.t == 3 && m.get_msg_type() == T::MsgRequestVote);
    s.sync_round(3);
    s.deliver_where(|k, m| k.f == 3 && k.t == 2 && m.get_msg_type() == T::MsgRequestVoteResponse);
    s.sync_round(2);
    for _ in 0..4 {
        s.drop_where(|k, _| k.t == 1 || k.f == 1);
        s.settle(&[2, 3]);
    }
    // node 1 hears from node 2: follower of term 2, tail replaced by (2, term 2); every write of node 1
    // completes, none is reported to raft
    s.act(Action::Tick { n: 2 });
    s.sync_round(2);
    s.drop_where(|k, _| k.t == 3);
    for _ in 0..6 {
        let n = s.deliver_where(|k, _| k.f == 2 && k.t == 1);
        round(&mut s, 1);
        s.deliver_where(|k, _| k.f == 1 && k.t == 2);
        s.sync_round(2);
        s.drop_where(|k, _| k.t == 3 && k.f == 2);
        if n == 0 {
            break;
        }
    }
    // node 1 is elected for term 3 by node 3
    s.act(Action::Campaign { n: 1 });
    round(&mut s, 1);
    s.drop_where(|k, _| k.f == 1 && k.t == 2);
    s.deliver_where(|k, m| k.f == 1 && k.t == 3 && m.get_msg_type() == T::MsgRequestVote);
    s.sync_round(3);
    s.deliver_where(|k, m| k.f == 3 && k.t == 1 && m.get_msg_type() == T::MsgRequestVoteResponse);
    // the completed writes are reported one by one, oldest (the term-1 write) first
    for _ in 0..8 {
        s.act(Action::NotifyOne { n: 1 });
    }
    for id in 11..=12 {
        s.act(Action::Propose { n: 1, id, size: 8 });
    }
    // the new entries are handed to the (slow) disk; nothing of them is durable on node 1
    s.drop_where(|k, _| k.f == 1 && k.t == 2);
    for _ in 0..4 {
        s.act(Action::AppReady { n: 1, mode: Mode::Async, skip_fsync: false, force: false });
        s.drop_where(|k, _| k.f == 1 && k.t == 2);
        s.deliver_where(|k, _| k.f == 1 && k.t == 3);
        s.sync_round(3);
        s.deliver_where(|k, _| k.f == 3 && k.t == 1);
        s.act(Action::AppReady { n: 1, mode: Mode::Async, skip_fsync: false, force: false });
        s.drop_where(|k, _| k.f == 1 && k.t == 2);
    }
    s
}

/// C13 (uncommitted-size accounting): a follower that wrote a large entry of the old leader but has not told raft
/// yet wins the election; the entries it was elected with must never be subtracted from the budget of its own
/// proposals when they are handed out as committed. max_uncommitted_size 1200, max_size_per_msg 1100.
pub fn elected_before_persistence_is_reported() -> Script {
    use raft::eraftpb::MessageType as T;
    let mut c = cluster(vec![1, 2, 3], 3);
    for cfg in c.nodes.values_mut() {
        cfg.max_uncommitted_size = 1200;
        cfg.max_size_per_msg = 1100;
    }
    let mut s = Script::new(c);
    s.act(Action::Campaign { n: 1 });
    s.settle(&[1, 2, 3]);
    // X (1000 bytes) reaches node 2 only; node 2 writes it, the write completes, raft is not told
    s.act(Action::Propose { n: 1, id: 1, size: 1000 });
    s.sync_round(1);
    s.deliver_where(|k, m| k.f == 1 && k.t == 2 && m.get_msg_type() == T::MsgAppend);
    s.drop_where(|k, _| k.f == 1);
    s.act(Action::AppReady { n: 2, mode: Mode::Async, skip_fsync: false, force: false });
    s.act(Action::Fsync { n: 2, count: u32::MAX, defer: true });
    s.drop_where(|k, _| k.t == 1);
    // node 2 is elected for term 2 by node 3, still without having reported its write
    s.act(Action::Campaign { n: 2 });
    s.act(Action::AppReady { n: 2, mode: Mode::Async, skip_fsync: false, force: false });
    s.act(Action::Fsync { n: 2, count: u32::MAX, defer: true });
    s.drop_where(|k, _| k.t == 1);
    s.deliver_where(|k, m| k.f == 2 && k.t == 3 && m.get_msg_type() == T::MsgRequestVote);
    s.sync_round(3);
    s.deliver_where(|k, m| k.f == 3 && k.t == 2 && m.get_msg_type() == T::MsgRequestVoteResponse);
    // its own proposals A and B fill the budget exactly
    s.act(Action::Propose { n: 2, id: 11, size: 600 });
    s.act(Action::Propose { n: 2, id: 12, size: 600 });
    s.act(Action::Notify { n: 2 });
    // replication to node 3 in size-limited steps; commits advance step by step and are handed out
    for _ in 0..12 {
        s.drop_where(|k, _| k.t == 1 || k.f == 1);
        s.act(Action::AppReady { n: 2, mode: Mode::Sync, skip_fsync: false, force: false });
        s.deliver_where(|k, _| k.f == 2 && k.t == 3);
        s.sync_round(3);
        s.deliver_where(|k, _| k.f == 3 && k.t == 2);
        s.act(Action::AppReady { n: 2, mode: Mode::Sync, skip_fsync: false, force: false });
        // one more proposal (1000 bytes) is offered after every step: it fits only once A and B are handed out
        let id = 100 + s.trace.len() as u64;
        s.act(Action::Propose { n: 2, id, size: 1000 });
    }
    s
}

/// One more persistence-notice race: Ready A carries entries 2..4 of term 1; the term-2 leader overwrites the
/// tail with a shorter suffix (Ready B: entry 2 of term 2) and then sends 3..4 of term 2 (Ready C, commit 4).
/// The disk completes the writes of A and B together, C is still in flight: one `on_persist_ready(B)` covers
/// two Readies. Only index 2 may count as persisted, so only entry 2 may be handed out for apply.
pub fn persist_notice_covers_two_readies_after_truncation() -> Script {
    use raft::eraftpb::MessageType as T;
    let mut s = Script::new(cluster(vec![1, 2, 3, 4, 5], 5));
    s.act(Action::Campaign { n: 1 });
    s.settle(&[1, 2, 3, 4, 5]);
    for id in 1..=3 {
        s.act(Action::Propose { n: 1, id, size: 8 });
    }
    s.sync_round(1);
    s.deliver_where(|k, m| k.f == 1 && k.t == 3 && m.get_msg_type() == T::MsgAppend);
    s.act(Action::AppReady { n: 3, mode: Mode::Async, skip_fsync: false, force: false }); // Ready A: 2..4 of term 1
    s.drop_where(|k, _| k.f == 1 || k.t == 1);
    // node 2 wins term 2 with {2,4,5}, commits 2..4 of term 2
    s.act(Action::Campaign { n: 2 });
    s.sync_round(2);
    s.deliver_where(|k, m| k.f == 2 && (k.t == 4 || k.t == 5) && m.get_msg_type() == T::MsgRequestVote);
    s.drop_where(|k, _| k.f == 2 && (k.t == 1 || k.t == 3));
    s.sync_round(4);
    s.sync_round(5);
    s.deliver_where(|k, _| k.t == 2);
    s.sync_round(2);
    for _ in 0..3 {
        s.drop_where(|k, _| k.t == 1 || k.t == 3 || k.f == 1 || k.f == 3);
        s.settle(&[2, 4, 5]);
    }
    // node 3 hears the new leader: first the append that truncates (Ready B), the later entries are not there yet
    s.act(Action::Tick { n: 2 });
    s.sync_round(2);
    s.drop_where(|k, _| k.t == 1);
    s.deliver_where(|k, m| k.f == 2 && k.t == 3 && m.get_msg_type() == T::MsgHeartbeat);
    s.act(Action::AppReady { n: 3, mode: Mode::Async, skip_fsync: false, force: false });
    s.act(Action::Fsync { n: 3, count: u32::MAX, defer: true }); // all durable so far, raft not told (messages go out)
    s.deliver_where(|k, m| k.f == 3 && k.t == 2 && m.get_msg_type() == T::MsgHeartbeatResponse);
    s.sync_round(2);
    s.deliver_where(|k, m| k.f == 2 && k.t == 3 && m.get_msg_type() == T::MsgAppend);
    s.act(Action::AppReady { n: 3, mode: Mode::Async, skip_fsync: false, force: false }); // Ready B: truncation at 2
    let writes_ab = s.world.nodes[&3].disk.wq.len() as u32;
    // node 2 appends two more entries and commits them with 4 and 5, then they reach node 3 (Ready C)
    s.act(Action::Propose { n: 2, id: 21, size: 8 });
    s.act(Action::Propose { n: 2, id: 22, size: 8 });
    for _ in 0..3 {
        s.drop_where(|k, _| k.t == 1 || k.t == 3 || k.f == 1 || k.f == 3);
        s.settle(&[2, 4, 5]);
    }
    s.act(Action::Fsync { n: 3, count: writes_ab, defer: true });
    s.deliver_where(|k, m| k.f == 3 && k.t == 2);
    s.sync_round(2);
    for _ in 0..3 {
        s.drop_where(|k, _| k.t == 1);
        s.deliver_where(|k, m| k.f == 2 && k.t == 3 && m.get_msg_type() == T::MsgAppend);
        s.act(Action::AppReady { n: 3, mode: Mode::Async, skip_fsync: false, force: false }); // Ready C (not fsynced)
        s.deliver_where(|k, m| k.f == 3 && k.t == 2);
        s.sync_round(2);
    }
    // the notice for A and B arrives as one
    s.act(Action::Notify { n: 3 });
    s.act(Action::AppReady { n: 3, mode: Mode::Async, skip_fsync: false, force: false });
    s.act(Action::Apply { n: 3, count: u32::MAX });
    s.act(Action::Fsync { n: 3, count: u32::MAX, defer: false });
    s.settle(&[2, 3, 4, 5]);
    s
}

/// C09 (one membership change at a time): a follower that wrote a membership entry of the old leader but has not
/// told raft yet wins the election; the inherited, unapplied change must still block a second membership proposal.
pub fn elected_with_unreported_membership_entry() -> Script {
    use raft::eraftpb::MessageType as T;
    let mut s = Script::new(cluster(vec![1, 2, 3], 4));
    s.act(Action::Campaign { n: 1 });
    s.settle(&[1, 2, 3]);
    // "add learner 4" (index 2) reaches node 2 only; node 2 writes it, the write completes, raft is not told
    s.act(Action::ProposeConf { n: 1, id: 1, v1: false, transition: 0, changes: vec![(2, 4)] });
    s.sync_round(1);
    s.deliver_where(|k, m| k.f == 1 && k.t == 2 && m.get_msg_type() == T::MsgAppend);
    s.drop_where(|k, _| k.f == 1);
    s.act(Action::AppReady { n: 2, mode: Mode::Async, skip_fsync: false, force: false });
    s.act(Action::Fsync { n: 2, count: u32::MAX, defer: true });
    s.drop_where(|k, _| k.t == 1);
    // node 2 is elected for term 2 by node 3, still without having reported its write
    s.act(Action::Campaign { n: 2 });
    s.act(Action::AppReady { n: 2, mode: Mode::Async, skip_fsync: false, force: false });
    s.act(Action::Fsync { n: 2, count: u32::MAX, defer: true });
    s.drop_where(|k, _| k.t == 1);
    s.deliver_where(|k, m| k.f == 2 && k.t == 3 && m.get_msg_type() == T::MsgRequestVote);
    s.sync_round(3);
    s.deliver_where(|k, m| k.f == 3 && k.t == 2 && m.get_msg_type() == T::MsgRequestVoteResponse);
    // a second membership change is proposed right away: the first is neither committed nor applied
    s.act(Action::ProposeConf { n: 2, id: 2, v1: false, transition: 0, changes: vec![(1, 1)] });
    s.act(Action::Notify { n: 2 });
    for _ in 0..6 {
        s.drop_where(|k, _| k.t == 1 || k.f == 1);
        s.settle(&[2, 3]);
    }
    s
}

/// C08 open finding: a network duplicate of a forwarded MsgReadIndex is registered a second time at the
/// (by then superseded) leader; a delayed heartbeat response that acknowledged the first registration
/// completes the quorum of the second one and releases a later local read without any heartbeat round
/// after it was issued. Voters {1,2,3}, ReadOnlyOption::Safe, no check_quorum.
pub fn duplicate_forwarded_read() -> Script {
    use raft::eraftpb::MessageType as T;
    let mut s = Script::new(cluster(vec![1, 2, 3], 3));
    s.act(Action::Campaign { n: 1 });
    s.settle(&[1, 2, 3]);
    // read X issued at follower 2, forwarded to leader 1; the network duplicates the forwarded request
    s.act(Action::ReadIndex { n: 2, id: 1 });
    s.sync_round(2);
    let fw: Vec<MsgKey> = s.world.flights.iter().filter(|(k, f)| k.f == 2 && k.t == 1 && f.msg.get_msg_type() == T::MsgReadIndex).map(|(k, _)| *k).collect();
    if fw.len() != 1 {
        return s;
    }
    s.act(Action::Dup { k: fw[0] });
    s.act(Action::Deliver { k: fw[0] });
    s.sync_round(1);
    // heartbeats carrying X reach 2 and 3; only node 2's answer comes back now, node 3's is delayed
    s.deliver_where(|k, m| k.f == 1 && m.get_msg_type() == T::MsgHeartbeat);
    s.sync_round(2);
    s.sync_round(3);
    s.deliver_where(|k, m| k.f == 2 && k.t == 1 && m.get_msg_type() == T::MsgHeartbeatResponse);
    s.sync_round(1);
    s.deliver_where(|k, m| k.f == 1 && k.t == 2 && m.get_msg_type() == T::MsgReadIndexResp);
    s.sync_round(2); // X answered at node 2
    // node 1 is cut off; node 2 wins term 2 with node 3 and commits new entries
    s.act(Action::Campaign { n: 2 });
    s.sync_round(2);
    s.drop_where(|k, m| k.f == 2 && k.t == 1 && m.get_msg_type() != T::MsgReadIndex);
    s.deliver_where(|k, m| k.f == 2 && k.t == 3 && m.get_msg_type() == T::MsgRequestVote);
    s.sync_round(3);
    s.deliver_where(|k, m| k.f == 3 && k.t == 2 && m.get_msg_type() == T::MsgRequestVoteResponse);
    s.sync_round(2);
    s.act(Action::Propose { n: 2, id: 7, size: 8 });
    for _ in 0..4 {
        s.drop_where(|k, _| k.t == 1 && k.f != 3 && k.f != 2);
        s.drop_where(|k, m| k.t == 1 && (k.f == 2 && m.get_msg_type() != T::MsgReadIndex || k.f == 3 && m.get_msg_type() != T::MsgHeartbeatResponse));
        s.drop_where(|k, m| k.t == 1 && m.term > 1);
        s.settle(&[2, 3]);
    }
    // read Y issued locally at the superseded leader 1: registered, its heartbeats are lost
    s.act(Action::ReadIndex { n: 1, id: 2 });
    s.sync_round(1);
    s.drop_where(|k, _| k.f == 1);
    // the duplicate of X arrives and is registered again behind Y; then node 3's old acknowledgement of X
    s.deliver_where(|k, m| k.f == 2 && k.t == 1 && m.get_msg_type() == T::MsgReadIndex);
    s.sync_round(1);
    s.drop_where(|k, _| k.f == 1);
    s.deliver_where(|k, m| k.f == 3 && k.t == 1 && m.get_msg_type() == T::MsgHeartbeatResponse && m.term == 1);
    s.sync_round(1);
    s
}

/// Scripted scenarios that every check of the property runs besides its random profile.
pub fn for_property(id: &str) -> Vec<(&'static str, fn() -> Script)> {
    match id {
        "C07" | "C14" => vec![
            ("persist_notice_after_truncation", persist_notice_after_truncation),
            ("persist_notice_after_truncating_ready", persist_notice_after_truncating_ready),
            ("persist_notice_covers_two_readies_after_truncation", persist_notice_covers_two_readies_after_truncation),
        ],
        "C13" => vec![("elected_before_persistence_is_reported", elected_before_persistence_is_reported)],
        "C09" => vec![("elected_with_unreported_membership_entry", elected_with_unreported_membership_entry)],
        "C04" => vec![
            ("persist_notice_after_truncating_ready", persist_notice_after_truncating_ready),
            ("stale_persist_notice_on_reelected_leader", stale_persist_notice_on_reelected_leader),
        ],
        _ => vec![],
    }
}
