//! Actions: the only way the World is mutated. A trace is a Vec<Action>; replay applies it in
//! order with no PRNG. Actions that refer to something that no longer exists are no-ops.

use serde::{Deserialize, Serialize};
use std::collections::BTreeMap;

pub type NodeId = u64;

#[derive(Clone, Copy, Debug, Serialize, Deserialize, PartialEq, Eq, PartialOrd, Ord, Hash)]
pub struct MsgKey {
    pub f: NodeId,
    pub t: NodeId,
    pub s: u64,
}

#[derive(Clone, Copy, Debug, Serialize, Deserialize, PartialEq, Eq)]
pub enum Mode {
    /// fsync, release persisted messages, `advance()` with eager apply, then handle LightReady.
    Sync,
    /// fsync, release persisted messages, `advance_append()`, apply later (`advance_apply_to`).
    SyncLazy,
    /// write to the page cache only, `advance_append_async()`, fsync + `on_persist_ready` later.
    Async,
}

#[derive(Clone, Copy, Debug, Serialize, Deserialize, PartialEq, Eq)]
pub enum Knob {
    MaxInflight { peer: NodeId, cap: usize },
    BatchAppend(bool),
    SkipBcastCommit(bool),
    MaxCommittedSizePerReady(u64),
    Priority(i64),
    CheckQuorum(bool),
    MaxApplyUnpersisted(u64),
    FreeInflightBuffers,
    GroupCommit(bool),
    AssignGroup { peer: NodeId, group: u64 },
    ClearGroups,
    /// every peer id of the universe gets commit group 1 + mix(seed, id) % k (the application's placement map)
    AssignAllGroups { seed: u64, k: u64 },
}

/// One single change of a membership proposal: (type, node id); type 0 = AddNode,
/// 1 = RemoveNode, 2 = AddLearnerNode.
pub type Change = (u8, NodeId);

#[derive(Clone, Debug, Serialize, Deserialize, PartialEq)]
#[serde(tag = "a")]
pub enum Action {
    Tick { n: NodeId },
    Deliver { k: MsgKey },
    Drop { k: MsgKey },
    Dup { k: MsgKey },
    /// One Ready round of n's application. `skip_fsync`: the app skips the fsync when
    /// `must_sync()` is false. `force`: call `ready()` even when `has_ready()` is false.
    AppReady { n: NodeId, mode: Mode, skip_fsync: bool, force: bool },
    /// Disk completes: the first `count` queued writes become durable (u32::MAX = all).
    /// `defer`: the persisted messages are released now, the `on_persist_ready` notification is
    /// handed to raft later by a `Notify` action (write thread sends, peer thread is told later).
    Fsync { n: NodeId, count: u32, #[serde(default)] defer: bool },
    Notify { n: NodeId },
    /// Only the oldest completed, not yet reported Ready number is reported (`on_persist_ready(k)` one by one).
    NotifyOne { n: NodeId },
    /// Application applies up to `count` stashed committed entries, then `advance_apply_to`.
    Apply { n: NodeId, count: u32 },
    Propose { n: NodeId, id: u64, size: u32 },
    /// transition: 0 Auto, 1 Implicit, 2 Explicit. v1: use the legacy ConfChange (first change only).
    ProposeConf { n: NodeId, id: u64, v1: bool, transition: u8, changes: Vec<Change> },
    /// A multi-entry MsgPropose stepped into node n (an application that batches proposals):
    /// `before` normal entries, optionally one membership change, `after` normal entries.
    ProposeBatch { n: NodeId, id: u64, before: u8, after: u8, conf: Option<(bool, u8, Vec<Change>)> },
    ReadIndex { n: NodeId, id: u64 },
    Transfer { n: NodeId, target: NodeId },
    Campaign { n: NodeId },
    RequestSnapshot { n: NodeId },
    Ping { n: NodeId },
    ReportUnreachable { n: NodeId, peer: NodeId },
    ReportSnapshot { n: NodeId, peer: NodeId, ok: bool },
    /// Compact n's storage up to (applied - back).
    Compact { n: NodeId, back: u64 },
    SetKnob { n: NodeId, knob: Knob },
    /// What-if calls of Changer::simple / enter_joint / leave_joint with a seeded change list on n's current tracker (C12);
    /// the tracker is not modified.
    ConfExercise { n: NodeId, seed: u64 },
    /// What-if sequence of legal MemStorageCore mutations on a scratch copy of n's storage state (C19).
    StorageExercise { n: NodeId, seed: u64 },
    StorageFault { n: NodeId, log_unavailable: bool, snap_unavailable: bool },
    EntriesFetched { n: NodeId },
    /// Crash: the volatile state is lost; of the queued (un-fsynced) writes the first `keep`
    /// survive, plus the first `torn` entries of the next write if it is an entries batch.
    Crash { n: NodeId, keep: u32, torn: u32 },
    Restart { n: NodeId },
    StartNode { n: NodeId },
    Decommission { n: NodeId },
    /// Offer a message the transport must never deliver (local-only type), or a response from
    /// a stranger, to `RawNode::step` (C20). kind indexes MessageType; from = claimed sender.
    Bogus { n: NodeId, kind: u8, from: NodeId, term_delta: i8 },
    /// A (pre-)vote request from a node outside n's configuration (a removed or misconfigured node that keeps
    /// campaigning): ordinary network input. term = n's term + term_delta; `fresh`: claims n's own last (index, term).
    StrangerVote { n: NodeId, from: NodeId, term_delta: u8, pre: bool, fresh: bool },
    /// Faults stop: operator heals the cluster, then a deterministic fair suffix runs inside
    /// the World (so that minimisation cannot break the fairness premise). Checks C10 (and C17
    /// when `transfer` is set).
    Stabilise { seed: u64, transfer: bool },
    /// One round of the C16 lock-step scenario: every member of the majority ticks once and all
    /// majority-internal traffic is delivered to quiescence; minority actions come in between
    /// as ordinary actions. The first Lockstep action fixes (leader, term, majority).
    Lockstep { majority: Vec<NodeId> },
}

#[derive(Clone, Debug, Serialize, Deserialize, PartialEq)]
pub struct NodeCfg {
    pub election_tick: usize,
    pub heartbeat_tick: usize,
    pub min_election_tick: usize,
    pub max_election_tick: usize,
    pub pre_vote: bool,
    pub check_quorum: bool,
    pub lease_read: bool,
    pub skip_bcast_commit: bool,
    pub batch_append: bool,
    pub priority: i64,
    pub max_size_per_msg: u64,
    pub max_inflight_msgs: usize,
    pub max_uncommitted_size: u64,
    pub max_committed_size_per_ready: u64,
    pub max_apply_unpersisted_log_limit: u64,
    pub disable_proposal_forwarding: bool,
}

impl Default for NodeCfg {
    fn default() -> Self {
        NodeCfg {
            election_tick: 10,
            heartbeat_tick: 2,
            min_election_tick: 0,
            max_election_tick: 0,
            pre_vote: false,
            check_quorum: false,
            lease_read: false,
            skip_bcast_commit: false,
            batch_append: false,
            priority: 0,
            max_size_per_msg: u64::MAX,
            max_inflight_msgs: 256,
            max_uncommitted_size: u64::MAX,
            max_committed_size_per_ready: u64::MAX,
            max_apply_unpersisted_log_limit: 0,
            disable_proposal_forwarding: false,
        }
    }
}

#[derive(Clone, Debug, Serialize, Deserialize, PartialEq)]
pub struct ClusterCfg {
    /// Initial configuration (identical on every node, also on nodes started later).
    pub voters: Vec<NodeId>,
    pub learners: Vec<NodeId>,
    /// All nodes start from a snapshot point (index, term) > 0 in some runs.
    pub initial_index: u64,
    pub initial_term: u64,
    /// Universe of node ids that may ever exist, with their Config knobs.
    pub nodes: BTreeMap<NodeId, NodeCfg>,
    pub timeout_salt: u64,
}
