//! Flow control (C13), Inflights FIFO (C18), transfer (C17), quorum arithmetic (C11),
//! snapshot sending/receiving rules (C15), pre-vote term discipline (C16).

use std::collections::BTreeSet;

use protobuf::Message as PbMessage;
use raft::eraftpb::{Message, MessageType};
use raft::{ProgressState, StateRole};

use crate::action::*;
use crate::refmodel::{self, RefVote};
use crate::world::*;

impl World {
    // ====================================================================================
    // C13: well-formed messages
    // ====================================================================================

    /// Every MsgAppend/MsgHeartbeat/MsgSnapshot of the leader's current term in `msgs` must be
    /// consistent with the leader's own log (a leader never rewrites its log within a term).
    pub fn check_leader_msgs(&mut self, n: NodeId, msgs: &[Message], fresh_from: usize) -> VResult<()> {
        let node = &self.nodes[&n];
        let o = &node.obs;
        if o.role != StateRole::Leader {
            return Ok(());
        }
        for (mi, m) in msgs.iter().enumerate() {
            if m.term != o.term {
                continue;
            }
            let fresh = mi >= fresh_from;
            match m.get_msg_type() {
                MessageType::MsgAppend => {
                    *self.stats.entry("chk.C13.append_well_formed").or_insert(0) += 1;
                    let mut bad: Option<(String, &'static str)> = None;
                    let anchor = Self::term_at(node, m.index);
                    if m.index >= o.first_index.saturating_sub(1) && anchor.is_some() && anchor != Some(m.log_term) {
                        bad = Some((format!("anchor ({}, term {}) but the leader's log has term {:?} there", m.index, m.log_term, anchor), "append_bad_anchor"));
                    }
                    if m.index > o.last_index {
                        bad = Some((format!("anchor index {} beyond the leader's last index {}", m.index, o.last_index), "append_bad_anchor"));
                    }
                    for (k, e) in m.entries.iter().enumerate() {
                        if e.index != m.index + 1 + k as u64 {
                            bad = Some((format!("entry #{k} has index {} but the append is anchored at {}", e.index, m.index), "append_not_contiguous"));
                            break;
                        }
                        match Self::log_at(node, e.index) {
                            Some((t, dg, _)) => {
                                if t != e.term || dg != entry_digest(e) {
                                    bad = Some((format!("entry at {} differs from the leader's own log entry", e.index), "append_foreign_entry"));
                                    break;
                                }
                            }
                            None => {
                                if e.index > o.last_index {
                                    bad = Some((format!("entry at {} is beyond the leader's last index {}", e.index, o.last_index), "append_foreign_entry"));
                                    break;
                                }
                            }
                        }
                    }
                    if m.commit > o.commit {
                        bad = Some((format!("advertises commit {} > leader commit {}", m.commit, o.commit), "append_commit_ahead"));
                    }
                    if let Some((why, sig)) = bad {
                        let d = format!("leader {n} (term {}) emitted MsgAppend to {}: {why}", o.term, m.to);
                        return Err(self.violation("C13", "C13.append_well_formed", n, d, sig.into()));
                    }
                    {
                        // size limit (batching off)
                        let batch = self.nodes[&n].cfg.batch_append || *self.stats.get("knob_batch_on").unwrap_or(&0) > 0;
                        let max = self.nodes[&n].cfg.max_size_per_msg;
                        if !batch && max != u64::MAX && m.entries.len() > 1 {
                            *self.stats.entry("chk.C13.size_limit").or_insert(0) += 1;
                            let sz: u64 = m.entries.iter().map(|e| e.compute_size() as u64).sum();
                            if sz > max {
                                let d = format!("leader {n} packed {} entries / {sz} bytes into one MsgAppend to {} (max_size_per_msg {max})", m.entries.len(), m.to);
                                return Err(self.violation("C13", "C13.size_limit", n, d, "append_oversize".into()));
                            }
                        }
                    }
                }
                MessageType::MsgHeartbeat if fresh => {
                    *self.stats.entry("chk.C13.heartbeat_commit").or_insert(0) += 1;
                    let node = &self.nodes[&n];
                    let matched = node.obs.pr(m.to).map(|p| p.matched).unwrap_or(u64::MAX);
                    if m.commit > node.obs.commit || m.commit > matched {
                        let d = format!("leader {n} sent a heartbeat to {} with commit {} (leader commit {}, follower matched {})", m.to, m.commit, node.obs.commit, matched);
                        return Err(self.violation("C13", "C13.append_well_formed", n, d, "heartbeat_commit_ahead".into()));
                    }
                }
                MessageType::MsgSnapshot if fresh => {
                    let node = &self.nodes[&n];
                    let idx = m.get_snapshot().get_metadata().index;
                    if idx > node.obs.commit {
                        let d = format!("leader {n} sent a snapshot at {idx} beyond its commit index {}", node.obs.commit);
                        return Err(self.violation("C13", "C13.append_well_formed", n, d, "snapshot_beyond_commit".into()));
                    }
                    // the snapshot's state must be the state of the committed prefix (C01 c)
                    let st = crate::disk::AppState::from_snapshot(m.get_snapshot());
                    if let Some(h) = self.ghost.h_at(idx) {
                        if h != st.hash {
                            let d = format!("leader {n} sent a snapshot at {idx} whose state differs from the committed log prefix");
                            return Err(self.violation("C01", "C01.commit_agreement", n, d, "snapshot_state_diverged".into()));
                        }
                    }
                    if let Some(t) = self.ghost.cl_term(idx) {
                        if t != m.get_snapshot().get_metadata().term {
                            let d = format!("leader {n} sent a snapshot ({idx}, term {}) but the committed entry there has term {t}", m.get_snapshot().get_metadata().term);
                            return Err(self.violation("C01", "C01.commit_agreement", n, d, "snapshot_term_mismatch".into()));
                        }
                    }
                }
                _ => {}
            }
        }
        Ok(())
    }

    pub fn check_flow(&mut self, c: &CallCtx) -> VResult<()> {
        let n = c.n;
        if matches!(c.kind, CallKind::New) {
            return Ok(());
        }
        if let CallKind::Knob(Knob::BatchAppend(true)) = c.kind {
            self.bump("knob_batch_on");
        }
        // ---- ghost uncommitted accounting: entries appended by this node while it leads
        self.account_uncommitted(c);
        // ---- ghost window capacities: progress objects are (re)created with the configured
        // default by membership changes and snapshot restores; a resize request sets the target
        {
            let restored = c.post.snap_index != 0 && c.post.snap_index != c.pre.snap_index;
            let node = self.nodes.get_mut(&n).unwrap();
            if restored {
                node.want_cap.clear();
            }
            let keys: Vec<u64> = node.want_cap.keys().cloned().collect();
            for k in keys {
                if !c.post.prs_keys.contains(&k) || !c.pre.prs_keys.contains(&k) {
                    node.want_cap.remove(&k);
                }
            }
            if let CallKind::ApplyConf { cc, .. } = c.kind {
                // a change that names a peer may remove and re-create its progress (default capacity)
                for ch in cc.get_changes() {
                    node.want_cap.insert(ch.node_id, usize::MAX); // unknown until the next resize request
                }
            }
            if let CallKind::Knob(Knob::MaxInflight { peer, cap }) = c.kind {
                if c.post.prs_keys.contains(peer) {
                    node.want_cap.insert(*peer, *cap);
                }
            }
        }
        if c.post.role != StateRole::Leader {
            return Ok(());
        }
        // ---- all pending messages of this term are well formed (batching rewrites earlier ones)
        let msgs: Vec<Message> = match self.nodes[&n].raw.as_ref() {
            Some(r) => r.raft.msgs.clone(),
            None => vec![],
        };
        if !msgs.is_empty() {
            let fresh_from = if c.post.msgs_len >= c.pre.msgs_len && !matches!(c.kind, CallKind::Ready) { c.pre.msgs_len } else { 0 };
            self.check_leader_msgs(n, &msgs, fresh_from)?;
        }
        let same_leader = c.pre.role == StateRole::Leader && c.pre.term == c.post.term;
        // ---- C18 / C13.window per peer
        for p in &c.post.prs {
            *self.stats.entry("chk.C18.window_is_fifo").or_insert(0) += 1;
            let inc = p.win.windows(2).all(|w| w[0] < w[1]);
            let eff_cap_ok = p.win.len() <= p.cap;
            let full_ref = p.win.len() == p.cap || p.pending_cap.map(|pc| p.win.len() >= pc).unwrap_or(false);
            let mut why: Option<String> = None;
            if !inc {
                why = Some(format!("window {:?} is not strictly increasing", p.win));
            } else if !eff_cap_ok {
                why = Some(format!("window holds {} > capacity {}", p.win.len(), p.cap));
            } else if full_ref != p.full {
                why = Some(format!("full() = {} but count {} cap {} pending {:?}", p.full, p.win.len(), p.cap, p.pending_cap));
            } else if self.nodes[&n].want_cap.get(&p.id) != Some(&usize::MAX)
                && p.pending_cap.unwrap_or(p.cap) != self.nodes[&n].want_cap.get(&p.id).cloned().unwrap_or(self.nodes[&n].cfg.max_inflight_msgs)
            {
                why = Some(format!("capacity {} (pending {:?}) but the capacity last requested is {}", p.cap, p.pending_cap, self.nodes[&n].want_cap.get(&p.id).cloned().unwrap_or(self.nodes[&n].cfg.max_inflight_msgs)));
            } else if p.win.is_empty() && p.pending_cap.is_some() {
                why = Some(format!("window is empty but the reduced capacity {:?} is still pending (cap {})", p.pending_cap, p.cap));
            } else if p.state == ProgressState::Replicate && p.win.first().map(|f| *f <= p.matched).unwrap_or(false) {
                why = Some(format!("window {:?} tracks an index <= matched {}", p.win, p.matched));
            } else if p.win.last().map(|l| *l >= p.next_idx).unwrap_or(false) {
                why = Some(format!("window {:?} tracks an index >= next_idx {}", p.win, p.next_idx));
            }
            if why.is_none() && same_leader {
                if let Some(q) = c.pre.pr(p.id) {
                    // new content = old content minus a prefix, plus larger new indexes; or reset
                    if !p.win.is_empty() && !q.win.is_empty() {
                        let first = p.win[0];
                        if let Some(pos) = q.win.iter().position(|x| *x == first) {
                            let kept = &q.win[pos..];
                            let k = kept.len().min(p.win.len());
                            if kept[..k] != p.win[..k] || (kept.len() > p.win.len()) {
                                why = Some(format!("window went from {:?} to {:?}: not (old minus a prefix) ++ new", q.win, p.win));
                            } else if p.win[k..].iter().any(|x| *x <= *q.win.last().unwrap()) {
                                why = Some(format!("window went from {:?} to {:?}: new elements are not larger", q.win, p.win));
                            }
                        } else if first <= *q.win.last().unwrap() && !(p.state != q.state || p.next_idx <= q.next_idx) {
                            why = Some(format!("window went from {:?} to {:?}: an element was lost from the middle", q.win, p.win));
                        }
                    }
                    if let Some(pc) = q.pending_cap {
                        if q.win.is_empty() {
                            let _ = pc;
                        }
                    }
                }
            }
            // C13.window against the capacity the application asked for: a call that adds to the
            // window must not take it beyond that capacity
            if same_leader {
                let want = self.nodes[&n].want_cap.get(&p.id).cloned().unwrap_or(self.nodes[&n].cfg.max_inflight_msgs);
                let grew = c.pre.pr(p.id).map(|q| p.win.last() > q.win.last() && !p.win.is_empty()).unwrap_or(false);
                if want != usize::MAX && grew && p.win.len() > want {
                    *self.stats.entry("chk.C13.window").or_insert(0) += 1;
                    let d = format!("leader {n} has {} unacknowledged entry-carrying appends in flight to {} after {} although max_inflight for that peer is {want} (window {:?})", p.win.len(), p.id, kind_name(c.kind), p.win);
                    let v = self.violation("C13", "C13.window", n, d, "window_beyond_requested_capacity".into());
                    self.gate(Err(v))?;
                }
            }
            if let Some(w) = why {
                let d = format!("leader {n}, peer {} ({:?}) after {}: {w}", p.id, p.state, kind_name(c.kind));
                let v = self.violation("C18", "C18.window_is_fifo", n, d, "window_not_fifo".into());
                self.gate(Err(v))?;
            }
            if p.cap != 256 && !p.win.is_empty() {
                self.bump("small_window_nonempty");
            }
        }
        // ---- ghost: snapshots outstanding per peer (sent, neither reported nor acknowledged)
        {
            let node = self.nodes.get_mut(&n).unwrap();
            if !same_leader {
                node.snap_outstanding.clear();
                node.snap_handed.clear();
            }
            match c.kind {
                CallKind::ReportSnapshot { peer, .. } => {
                    node.snap_outstanding.remove(peer);
                    node.snap_handed.remove(peer);
                }
                CallKind::Step(r) if r.get_msg_type() == MessageType::MsgAppendResponse && !r.reject => {
                    if node.snap_outstanding.get(&r.from).map(|idx| r.index >= *idx).unwrap_or(false) {
                        node.snap_outstanding.remove(&r.from);
                    }
                }
                _ => {}
            }
            let keys: Vec<u64> = node.snap_outstanding.keys().cloned().collect();
            for k in keys {
                if !c.post.prs_keys.contains(&k) || c.pre.conf != c.post.conf {
                    node.snap_outstanding.remove(&k);
                }
            }
            let keys: Vec<u64> = node.snap_handed.keys().cloned().collect();
            for k in keys {
                if !c.post.prs_keys.contains(&k) {
                    node.snap_handed.remove(&k);
                }
            }
        }
        if same_leader {
            let outstanding = self.nodes[&n].snap_outstanding.clone();
            for m in c.emitted {
                if m.get_msg_type() == MessageType::MsgAppend {
                    if let Some(idx) = outstanding.get(&m.to) {
                        *self.stats.entry("chk.C13.snapshot_silence").or_insert(0) += 1;
                        let d = format!("leader {n} sent MsgAppend (anchor {}, {} entries) to {} while its snapshot at {idx} is outstanding: neither reported nor acknowledged (call {})", m.index, m.entries.len(), m.to, kind_name(c.kind));
                        let v = self.violation("C13", "C13.snapshot_silence", n, d, "append_while_snapshot_outstanding".into());
                        self.gate(Err(v))?;
                    }
                }
            }
        }
        {
            let node = self.nodes.get_mut(&n).unwrap();
            for m in c.emitted {
                if m.get_msg_type() == MessageType::MsgSnapshot {
                    node.snap_outstanding.insert(m.to, m.get_snapshot().get_metadata().index);
                    node.snap_handed.insert(m.to, m.get_snapshot().get_metadata().index);
                }
            }
        }
        if self.verbose {
            let node = &self.nodes[&n];
            for p in &c.post.prs {
                let was = c.pre.pr(p.id).map(|q| q.state == ProgressState::Snapshot).unwrap_or(false);
                if p.state == ProgressState::Snapshot && !was {
                    eprintln!("   [dbg] step {} node {n}: peer {} enters Snapshot state in {} (emitted {} msgs, handed ghost {:?}, same_leader {same_leader})", self.step_no, p.id, kind_name(c.kind), c.emitted.len(), node.snap_handed.get(&p.id));
                }
                if p.state != ProgressState::Snapshot && was {
                    eprintln!("   [dbg] step {} node {n}: peer {} leaves Snapshot state in {}", self.step_no, p.id, kind_name(c.kind));
                }
            }
        }
        // ---- ghost: probe outstanding per peer. Set when an entry-carrying append goes to a peer that is (still) in
        // Probe state; cleared by anything that may legitimately let the leader probe again: any call that
        // originates from that peer or is about it, EXCEPT an append acknowledgement that carries no news
        // (not a rejection, index <= matched: a stale or duplicated ack); a state change of the peer, a
        // membership change, a new leadership. Independent of the library's own `paused` flag.
        {
            let about: Option<u64> = match c.kind {
                CallKind::Step(m) => {
                    let stale_ack = m.get_msg_type() == MessageType::MsgAppendResponse
                        && !m.reject
                        && m.term == c.pre.term
                        && c.pre.pr(m.from).map(|q| m.index <= q.matched && q.state == ProgressState::Probe).unwrap_or(false);
                    // a (forwarded) transfer request names the peer but is no news from it either
                    if stale_ack || m.get_msg_type() == MessageType::MsgTransferLeader { None } else { Some(m.from) }
                }
                CallKind::ReportSnapshot { peer, .. } | CallKind::ReportUnreachable { peer } => Some(*peer),
                CallKind::Knob(Knob::MaxInflight { peer, .. }) => Some(*peer),
                _ => None,
            };
            let conf_changed = c.pre.conf != c.post.conf || matches!(c.kind, CallKind::ApplyConf { .. });
            let node = self.nodes.get_mut(&n).unwrap();
            if !same_leader || conf_changed || matches!(c.kind, CallKind::EntriesFetched | CallKind::Bogus(_)) {
                node.probe_outstanding.clear();
            }
            if let Some(f) = about {
                node.probe_outstanding.remove(&f);
            }
            let keys: Vec<u64> = node.probe_outstanding.iter().cloned().collect();
            for k in keys {
                let still = c.pre.pr(k).map(|q| q.state == ProgressState::Probe).unwrap_or(false) && c.post.pr(k).map(|q| q.state == ProgressState::Probe).unwrap_or(false);
                if !still {
                    node.probe_outstanding.remove(&k);
                }
            }
            if same_leader {
                let out = node.probe_outstanding.clone();
                let mut fire: Option<String> = None;
                for m in c.emitted {
                    if m.get_msg_type() == MessageType::MsgAppend && !m.entries.is_empty() {
                        if out.contains(&m.to) {
                            fire = Some(format!("leader {n} sent a second entry-carrying MsgAppend (anchor {}, {} entries) to probing peer {} in {} although the first is unanswered: nothing but stale acknowledgements arrived from that peer since", m.index, m.entries.len(), m.to, kind_name(c.kind)));
                            break;
                        }
                    }
                }
                if !out.is_empty() {
                    *self.stats.entry("chk.C13.probe_one").or_insert(0) += 1;
                }
                if let Some(d) = fire {
                    let v = self.violation("C13", "C13.probe_one", n, d, "second_probe_after_stale_ack".into());
                    self.gate(Err(v))?;
                }
                let node = self.nodes.get_mut(&n).unwrap();
                for m in c.emitted {
                    if m.get_msg_type() == MessageType::MsgAppend && !m.entries.is_empty() && c.post.pr(m.to).map(|q| q.state == ProgressState::Probe).unwrap_or(false) {
                        node.probe_outstanding.insert(m.to);
                    }
                }
            }
        }
        if !same_leader {
            return Ok(());
        }
        // ---- per-peer emission rules
        let origin: Option<u64> = match c.kind {
            CallKind::Step(m) => Some(m.from),
            CallKind::ReportSnapshot { peer, .. } | CallKind::ReportUnreachable { peer } => Some(*peer),
            CallKind::Transfer { target } => Some(*target),
            CallKind::Knob(Knob::MaxInflight { peer, .. }) => Some(*peer),
            CallKind::EntriesFetched => None,
            _ => None,
        };
        let conf_changed = c.pre.conf != c.post.conf || matches!(c.kind, CallKind::ApplyConf { .. });
        for m in c.emitted {
            let f = m.to;
            let q = match c.pre.pr(f) {
                Some(q) => q,
                None => continue,
            };
            let p = match c.post.pr(f) {
                Some(p) => p,
                None => continue,
            };
            if Some(f) == origin || conf_changed {
                continue;
            }
            if m.get_msg_type() == MessageType::MsgAppend {
                if q.state == ProgressState::Snapshot && p.state == ProgressState::Snapshot {
                    *self.stats.entry("chk.C13.snapshot_silence").or_insert(0) += 1;
                    let d = format!("leader {n} sent MsgAppend to {f} while a snapshot is outstanding (call {})", kind_name(c.kind));
                    return Err(self.violation("C13", "C13.snapshot_silence", n, d, "append_during_snapshot".into()));
                }
                if q.state == ProgressState::Probe && q.paused {
                    *self.stats.entry("chk.C13.probe_one").or_insert(0) += 1;
                    let d = format!("leader {n} sent a second MsgAppend to probing peer {f} before any answer (call {})", kind_name(c.kind));
                    return Err(self.violation("C13", "C13.probe_one", n, d, "second_probe".into()));
                }
                if q.state == ProgressState::Replicate && q.full && !m.entries.is_empty() {
                    *self.stats.entry("chk.C13.window").or_insert(0) += 1;
                    let d = format!("leader {n} sent entries to {f} although its in-flight window {:?} (cap {}, pending {:?}) was full (call {})", q.win, q.cap, q.pending_cap, kind_name(c.kind));
                    return Err(self.violation("C13", "C13.window", n, d, "send_into_full_window".into()));
                }
                if p.state == ProgressState::Probe && !m.entries.is_empty() && !p.paused {
                    *self.stats.entry("chk.C13.probe_one").or_insert(0) += 1;
                    let d = format!("leader {n} sent entries to probing peer {f} and did not pause it (call {})", kind_name(c.kind));
                    return Err(self.violation("C13", "C13.probe_one", n, d, "probe_not_paused".into()));
                }
            }
        }
        // count rule evaluations even when nothing was emitted (pausing conditions present)
        for q in &c.pre.prs {
            if q.state == ProgressState::Replicate && q.full {
                *self.stats.entry("chk.C13.window").or_insert(0) += 1;
                self.bump("window_full_seen");
            }
            if q.state == ProgressState::Probe && q.paused {
                *self.stats.entry("chk.C13.probe_one").or_insert(0) += 1;
            }
            if q.state == ProgressState::Snapshot {
                *self.stats.entry("chk.C13.snapshot_silence").or_insert(0) += 1;
            }
        }
        Ok(())
    }

    /// Messages produced inside `advance()` leave through the LightReady, not through `emitted`: feed the
    /// per-peer ghosts from them as well.
    pub fn note_light_messages(&mut self, n: NodeId, msgs: &[Message]) {
        let probing: Vec<u64> = self.nodes[&n].obs.prs.iter().filter(|p| p.state == ProgressState::Probe).map(|p| p.id).collect();
        let node = self.nodes.get_mut(&n).unwrap();
        for m in msgs {
            if m.get_msg_type() == MessageType::MsgSnapshot {
                node.snap_outstanding.insert(m.to, m.get_snapshot().get_metadata().index);
                node.snap_handed.insert(m.to, m.get_snapshot().get_metadata().index);
            }
            if m.get_msg_type() == MessageType::MsgAppend && !m.entries.is_empty() && probing.contains(&m.to) {
                node.probe_outstanding.insert(m.to);
            }
        }
    }

    fn account_uncommitted(&mut self, c: &CallCtx) {
        let n = c.n;
        let node = self.nodes.get_mut(&n).unwrap();
        if c.post.role != StateRole::Leader {
            node.ghost_uncommitted.clear();
            node.ghost_uncommitted_term = 0;
            return;
        }
        if node.ghost_uncommitted_term != c.post.term {
            node.ghost_uncommitted.clear();
            node.ghost_uncommitted_term = c.post.term;
        }
        let from = if c.pre.role == StateRole::Leader && c.pre.term == c.post.term { c.pre.last_index } else { u64::MAX };
        if from == u64::MAX {
            return; // the election call appends only the empty entry
        }
        for i in (from + 1)..=c.post.last_index {
            if i >= node.unst.offset {
                if let Some(l) = node.unst.lens.get((i - node.unst.offset) as usize) {
                    node.ghost_uncommitted.push_back((i, *l));
                }
            }
        }
    }

    /// Called when entries are handed out as committed (Ready / LightReady).
    pub fn uncommitted_handed_out(&mut self, n: NodeId, upto: u64) {
        let node = self.nodes.get_mut(&n).unwrap();
        while node.ghost_uncommitted.front().map(|x| x.0 <= upto).unwrap_or(false) {
            node.ghost_uncommitted.pop_front();
        }
    }

    pub fn check_uncommitted_bound(&mut self, c: &CallCtx, size: usize) -> VResult<()> {
        let n = c.n;
        let node = &self.nodes[&n];
        let max = node.cfg.max_uncommitted_size;
        if max == u64::MAX {
            return Ok(());
        }
        if !(c.pre.role == StateRole::Leader && c.post.role == StateRole::Leader && c.pre.term == c.post.term) {
            return Ok(());
        }
        if c.pre.transferee.is_some() || !c.pre.prs_keys.contains(&n) {
            return Ok(());
        }
        *self.stats.entry("chk.C13.uncommitted_bound").or_insert(0) += 1;
        // outstanding before the call = ghost sum minus what this call just added
        let added: usize = node.ghost_uncommitted.iter().filter(|x| x.0 > c.pre.last_index).map(|x| x.1).sum();
        let total: usize = node.ghost_uncommitted.iter().map(|x| x.1).sum();
        let out = total - added;
        let accepted = c.err.is_none();
        let allowed = size == 0 || out == 0 || (out + size) as u64 <= max;
        if accepted && !allowed {
            let d = format!("leader {n} accepted a proposal of {size} bytes with {out} bytes outstanding (max_uncommitted_size {max})");
            return Err(self.violation("C13", "C13.uncommitted_bound", n, d, "uncommitted_overflow".into()));
        }
        if !accepted && (size == 0 || out == 0) {
            let d = format!("leader {n} refused a proposal of {size} bytes with {out} bytes outstanding (max_uncommitted_size {max}): {:?}", c.err);
            return Err(self.violation("C13", "C13.uncommitted_bound", n, d, "uncommitted_refused".into()));
        }
        if !accepted {
            self.bump("proposals_refused_for_size");
        }
        Ok(())
    }

    // ====================================================================================
    // C17: leadership transfer
    // ====================================================================================

    pub fn check_transfer(&mut self, c: &CallCtx) -> VResult<()> {
        let n = c.n;
        if matches!(c.kind, CallKind::New) {
            return Ok(());
        }
        if let CallKind::Propose { size, .. } = c.kind {
            self.check_uncommitted_bound(c, *size)?;
        }
        // timeout_now_only_when_caught_up
        for m in c.emitted {
            if m.get_msg_type() == MessageType::MsgTimeoutNow {
                *self.stats.entry("chk.C17.timeout_now_only_when_caught_up").or_insert(0) += 1;
                self.bump("timeout_now_sent");
                let matched = c.post.pr(m.to).map(|p| p.matched);
                if matched != Some(c.post.last_index) {
                    let d = format!("leader {n} told {} to campaign now although it acknowledged {:?} of the leader's log ending at {}", m.to, matched, c.post.last_index);
                    return Err(self.violation("C17", "C17.timeout_now_only_when_caught_up", n, d, "timeout_now_to_lagging".into()));
                }
            }
        }
        // no_proposals_while_transferring
        let is_proposal = matches!(c.kind, CallKind::Propose { .. } | CallKind::ProposeConf { .. })
            || matches!(c.kind, CallKind::Step(m) if m.get_msg_type() == MessageType::MsgPropose);
        if is_proposal && c.pre.role == StateRole::Leader && c.pre.transferee.is_some() && c.post.role == StateRole::Leader {
            *self.stats.entry("chk.C17.no_proposals_while_transferring").or_insert(0) += 1;
            if c.post.last_index != c.pre.last_index || (c.err.is_none() && !matches!(c.kind, CallKind::Step(_))) {
                let d = format!("leader {n} accepted a proposal while transferring leadership to {:?} (log {} -> {})", c.pre.transferee, c.pre.last_index, c.post.last_index);
                return Err(self.violation("C17", "C17.no_proposals_while_transferring", n, d, "proposal_during_transfer".into()));
            }
        }
        // a pending transfer ends only by stepping down, by the timeout (a tick), by a membership change, or by
        // another transfer request; never as a side effect of anything else (while it is pending, proposals are refused)
        if c.pre.role == StateRole::Leader && c.post.role == StateRole::Leader && c.pre.term == c.post.term {
            if let Some(t) = c.pre.transferee {
                *self.stats.entry("chk.C17.pending_until_resolved").or_insert(0) += 1;
                let legit = matches!(c.kind, CallKind::Tick | CallKind::ApplyConf { .. } | CallKind::Transfer { .. })
                    || matches!(c.kind, CallKind::Step(m) if m.get_msg_type() == MessageType::MsgTransferLeader);
                if c.post.transferee != Some(t) && !legit {
                    let d = format!("leader {n} dropped its pending transfer to {t} in {} (now {:?}) without stepping down, a timeout, a membership change or a new request", kind_name(c.kind), c.post.transferee);
                    return Err(self.violation("C17", "C17.no_proposals_while_transferring", n, d, "transfer_forgotten".into()));
                }
            }
        }
        // abort_after_timeout
        {
            let et = self.nodes[&n].cfg.election_tick;
            let node = self.nodes.get_mut(&n).unwrap();
            if c.post.role == StateRole::Leader && c.post.transferee.is_some() {
                if node.transferee_seen != c.post.transferee || c.pre.term != c.post.term {
                    node.transferee_seen = c.post.transferee;
                    node.ticks_as_leader_with_transferee = 0;
                }
                if matches!(c.kind, CallKind::Transfer { .. }) || matches!(c.kind, CallKind::Step(m) if m.get_msg_type() == MessageType::MsgTransferLeader) {
                    // a repeated request for the same target does not restart the clock, a new target does (handled above)
                }
                if matches!(c.kind, CallKind::Tick) && c.pre.transferee == c.post.transferee {
                    node.ticks_as_leader_with_transferee += 1;
                    let cnt = node.ticks_as_leader_with_transferee;
                    *self.stats.entry("chk.C17.abort_after_timeout").or_insert(0) += 1;
                    if cnt > et {
                        let d = format!("leader {n} still has transfer target {:?} pending after {cnt} ticks (election_tick {et})", c.post.transferee);
                        return Err(self.violation("C17", "C17.abort_after_timeout", n, d, "transfer_not_aborted".into()));
                    }
                }
            } else {
                if node.transferee_seen.is_some() && c.post.role == StateRole::Leader && matches!(c.kind, CallKind::Tick) {
                    *self.stats.entry("transfer_aborted_by_timeout").or_insert(0) += 1;
                }
                node.transferee_seen = None;
                node.ticks_as_leader_with_transferee = 0;
            }
        }
        // abort_when_removed
        if matches!(c.kind, CallKind::ApplyConf { .. }) && c.post.role == StateRole::Leader {
            if let Some(x) = c.post.transferee {
                *self.stats.entry("chk.C17.abort_when_removed").or_insert(0) += 1;
                if !c.post.conf.is_voter(x) {
                    let d = format!("leader {n} keeps transfer target {x} which is no voter of {:?}", c.post.conf);
                    return Err(self.violation("C17", "C17.abort_when_removed", n, d, "transfer_to_removed".into()));
                }
            }
        }
        // bad_target_ignored (request handled by a leader, directly or forwarded)
        let req: Option<u64> = match c.kind {
            CallKind::Transfer { target } => Some(*target),
            CallKind::Step(m) if m.get_msg_type() == MessageType::MsgTransferLeader => Some(m.from),
            _ => None,
        };
        if let Some(t) = req {
            if c.pre.role == StateRole::Leader && c.post.role == StateRole::Leader {
                let unknown = !c.pre.prs_keys.contains(&t);
                let learner = c.pre.conf.learners.contains(&t);
                if unknown || learner {
                    *self.stats.entry("chk.C17.bad_target_ignored").or_insert(0) += 1;
                    if c.pre.transferee != c.post.transferee || !c.emitted.is_empty() || c.pre.election_elapsed != c.post.election_elapsed {
                        let d = format!("leader {n}: transfer request naming {} ({}) changed its state (transferee {:?} -> {:?}, {} messages)", t, if unknown { "unknown" } else { "learner" }, c.pre.transferee, c.post.transferee, c.emitted.len());
                        return Err(self.violation("C17", "C17.bad_target_ignored", n, d, "bad_target_not_ignored".into()));
                    }
                } else if t == n {
                    *self.stats.entry("chk.C17.bad_target_ignored").or_insert(0) += 1;
                    if c.post.transferee.is_some() && c.post.transferee != c.pre.transferee || c.post.transferee == Some(n) || !c.emitted.is_empty() {
                        let d = format!("leader {n}: transfer request naming itself changed more than cancelling the pending transfer ({:?} -> {:?})", c.pre.transferee, c.post.transferee);
                        return Err(self.violation("C17", "C17.bad_target_ignored", n, d, "self_target_not_ignored".into()));
                    }
                } else if c.post.transferee == Some(t) {
                    self.bump("transfers_started");
                }
            }
        }
        Ok(())
    }

    // ====================================================================================
    // C11: quorum arithmetic, in situ
    // ====================================================================================

    pub fn check_quorum_math(&mut self, c: &CallCtx) -> VResult<()> {
        let n = c.n;
        let o = c.post;
        // the group-commit switch is the application's: the library never flips it on its own
        if !matches!(c.kind, CallKind::New) {
            *self.stats.entry("chk.C11.group_commit_switch").or_insert(0) += 1;
            let want = self.nodes[&n].want_group_commit;
            if o.group_commit != want && !matches!(c.kind, CallKind::Knob(Knob::GroupCommit(_))) {
                let d = format!("node {n}: group commit is {} after {} although the application last set it to {want}", o.group_commit, kind_name(c.kind));
                return Err(self.violation("C11", "C11.commit_index_exact", n, d, "group_commit_switch_lost".into()));
            }
        }
        if o.role == StateRole::Leader {
            let (got, used_gc) = match self.nodes.get_mut(&n).and_then(|x| x.raw.as_mut()) {
                Some(raw) => raw.raft.mut_prs().maximal_committed_index(),
                None => return Ok(()),
            };
            *self.stats.entry("chk.C11.commit_index_exact").or_insert(0) += 1;
            let matched = |id: u64| o.pr(id).map(|p| p.matched).unwrap_or(0);
            let group = |id: u64| o.pr(id).map(|p| p.group).unwrap_or(0);
            let plain = refmodel::joint_index(&o.conf.voters, &o.conf.outgoing, &matched);
            if o.conf.voters.len() > 7 || o.conf.outgoing.len() > 7 {
                self.bump("gt7_voters_heap_path");
            }
            if !o.group_commit {
                if got != plain {
                    let d = format!("leader {n}: commit index computed as {got}, reference {plain} (voters {:?} / {:?}, matched {:?})", o.conf.voters, o.conf.outgoing, o.prs.iter().map(|p| (p.id, p.matched)).collect::<Vec<_>>());
                    return Err(self.violation("C11", "C11.commit_index_exact", n, d, "quorum_index_wrong".into()));
                }
            } else {
                self.bump("group_commit_evaluated");
                if got > plain {
                    let d = format!("leader {n}: group-commit index {got} exceeds the plain quorum index {plain}");
                    return Err(self.violation("C11", "C11.commit_index_exact", n, d, "group_commit_exceeds_quorum".into()));
                }
                let gi = refmodel::group_commit_index(&o.conf.voters, &matched, &group);
                let go = refmodel::group_commit_index(&o.conf.outgoing, &matched, &group);
                if let (Some(a), Some(b)) = (gi, go) {
                    self.bump("group_commit_exact_evaluated");
                    let want = a.min(b);
                    if got != want {
                        let d = format!("leader {n}: group-commit index {got}, reference {want} (matched/group {:?}, used_gc {used_gc})", o.prs.iter().map(|p| (p.id, p.matched, p.group)).collect::<Vec<_>>());
                        return Err(self.violation("C11", "C11.commit_index_exact", n, d, "group_commit_wrong".into()));
                    }
                }
            }
        }
        if o.role == StateRole::Candidate || o.role == StateRole::PreCandidate {
            let (votes, res) = match self.nodes.get(&n).and_then(|x| x.raw.as_ref()) {
                Some(raw) => {
                    let v: std::collections::BTreeMap<u64, bool> = raw.raft.prs().votes().iter().map(|(k, v)| (*k, *v)).collect();
                    (v, raw.raft.prs().tally_votes().2)
                }
                None => return Ok(()),
            };
            *self.stats.entry("chk.C11.vote_result_exact").or_insert(0) += 1;
            let f = |id: u64| votes.get(&id).cloned();
            let want = refmodel::vote_joint(&o.conf.voters, &o.conf.outgoing, &f);
            let got = match res.to_string().as_str() {
                "VoteWon" => RefVote::Won,
                "VoteLost" => RefVote::Lost,
                _ => RefVote::Pending,
            };
            if got != want {
                let d = format!("candidate {n}: tally says {:?}, reference {:?} (votes {:?}, voters {:?} / {:?})", got, want, votes, o.conf.voters, o.conf.outgoing);
                return Err(self.violation("C11", "C11.vote_result_exact", n, d, "vote_result_wrong".into()));
            }
        }
        if self.step_no % 8 == 0 {
            // has_quorum over the set of currently running nodes
            let running: BTreeSet<u64> = self.running_ids().into_iter().collect();
            if let Some(raw) = self.nodes.get(&n).and_then(|x| x.raw.as_ref()) {
                let mut hs: std::collections::HashSet<u64, std::hash::BuildHasherDefault<fxhash::FxHasher>> = Default::default();
                hs.extend(running.iter().cloned());
                let got = raw.raft.prs().has_quorum(&hs);
                *self.stats.entry("chk.C11.has_quorum_exact").or_insert(0) += 1;
                let want = refmodel::RefConf::from_shape(&o.conf).is_quorum(&running);
                if got != want {
                    let d = format!("node {n}: has_quorum({:?}) = {got}, reference {want} for {:?}", running, o.conf);
                    return Err(self.violation("C11", "C11.has_quorum_exact", n, d, "has_quorum_wrong".into()));
                }
            }
        }
        Ok(())
    }

    // ====================================================================================
    // C15: snapshot rules at message level
    // ====================================================================================

    pub fn check_snapshot_call(&mut self, c: &CallCtx) -> VResult<()> {
        let n = c.n;
        if let CallKind::Step(m) = c.kind {
            if m.get_msg_type() == MessageType::MsgSnapshot && m.term >= c.pre.term {
                let meta = m.get_snapshot().get_metadata();
                let (idx, term) = (meta.index, meta.term);
                let installed = c.post.snap_index == idx && (c.pre.snap_index != idx || c.post.snap_term != c.pre.snap_term) && c.post.snap_index != 0;
                let cs = ConfShape::from_cs(meta.get_conf_state());
                if installed {
                    // a snapshot sent in term T never removes entries the node acknowledged in term T
                    if let Some((at, ai)) = self.ghost.acked.get(&n).cloned() {
                        if at == c.post.term && ai > c.post.last_index {
                            let d = format!("node {n} installed a snapshot at {idx} that discarded entries up to {ai} which it had acknowledged to the leader of the same term {at}");
                            return Err(self.violation("C15", "C15.install_effect", n, d, "install_discarded_acknowledged".into()));
                        }
                    }
                    *self.stats.entry("chk.C15.install_guard").or_insert(0) += 1;
                    if idx < c.pre.commit {
                        let d = format!("node {n} accepted a snapshot at {idx} behind its commit index {}", c.pre.commit);
                        return Err(self.violation("C15", "C15.install_guard", n, d, "snapshot_behind_commit".into()));
                    }
                    if !cs.is_member(n) {
                        let d = format!("node {n} accepted a snapshot whose configuration {:?} does not list it", cs);
                        return Err(self.violation("C15", "C15.install_guard", n, d, "snapshot_not_member".into()));
                    }
                }
                // fast-forward
                let node = &self.nodes[&n];
                let had = {
                    // the log before the call: the committed prefix and everything else is unchanged unless restored
                    if c.pre.snap_index != 0 && idx <= c.pre.snap_index {
                        if idx == c.pre.snap_index { Some(c.pre.snap_term) } else { None }
                    } else if idx > c.pre.last_index {
                        None
                    } else if idx >= c.pre_unst.offset {
                        c.pre_unst.ents.get((idx - c.pre_unst.offset) as usize).map(|e| e.0)
                    } else {
                        node.disk.model.term(idx).ok()
                    }
                };
                if had == Some(term) && (c.pre.pending_request_snapshot == 0 || idx < c.pre.pending_request_snapshot) && idx >= c.pre.commit && cs.is_member(n) && c.pre.role == StateRole::Follower {
                    *self.stats.entry("chk.C15.fast_forward").or_insert(0) += 1;
                    self.bump("snapshot_fast_forward");
                    if installed || c.post.last_index != c.pre.last_index || c.post.commit < idx {
                        let d = format!("node {n} already holds ({idx}, term {term}) and did not ask for a snapshot, yet installed {} / last index {} -> {} / commit {}", installed, c.pre.last_index, c.post.last_index, c.post.commit);
                        return Err(self.violation("C15", "C15.fast_forward", n, d, "matching_snapshot_discarded_log".into()));
                    }
                }
            }
        }
        if c.post.role == StateRole::Leader && c.pre.role == StateRole::Leader && c.pre.term == c.post.term {
            // send_only_if_needed
            for m in c.emitted {
                if m.get_msg_type() != MessageType::MsgSnapshot {
                    continue;
                }
                *self.stats.entry("chk.C15.send_only_if_needed").or_insert(0) += 1;
                self.bump("snapshots_sent");
                let f = m.to;
                let asked_before = c.pre.pr(f).map(|p| p.pending_request_snapshot != 0).unwrap_or(false);
                let asked_now = matches!(c.kind, CallKind::Step(r) if r.from == f && r.request_snapshot != 0);
                let asked_post = c.post.pr(f).map(|p| p.pending_request_snapshot != 0).unwrap_or(false);
                let next = c.post.pr(f).map(|p| p.next_idx).unwrap_or(0);
                let node = &self.nodes[&n];
                let log_unavailable = node.raw.as_ref().map(|_| false).unwrap_or(false);
                let needed = next < c.post.first_index || Self::term_at(node, next.saturating_sub(1)).is_none();
                if !(needed || asked_before || asked_now || asked_post || log_unavailable) {
                    let d = format!("leader {n} sent a snapshot to {f} although the entries from {next} are available (first index {}) and {f} did not ask", c.post.first_index);
                    return Err(self.violation("C15", "C15.send_only_if_needed", n, d, "needless_snapshot".into()));
                }
            }
            // resume_after_report
            if let CallKind::ReportSnapshot { peer, ok } = c.kind {
                if let (Some(q), Some(p)) = (c.pre.pr(*peer), c.post.pr(*peer)) {
                    if q.state == ProgressState::Snapshot {
                        *self.stats.entry("chk.C15.resume_after_report").or_insert(0) += 1;
                        let want_next = if *ok { q.matched.max(q.pending_snapshot) + 1 } else { q.matched + 1 };
                        if p.state != ProgressState::Probe || p.next_idx != want_next || !p.paused || p.pending_request_snapshot != 0 {
                            let d = format!("leader {n}: after snapshot report ok={ok} for {peer} the progress is {:?} next {} paused {} (expected Probe, next {want_next}, paused)", p.state, p.next_idx, p.paused);
                            return Err(self.violation("C15", "C15.resume_after_report", n, d, "bad_resume_after_report".into()));
                        }
                    }
                }
            }
        }
        Ok(())
    }

    // ====================================================================================
    // C16: no term inflation with pre-vote
    // ====================================================================================

    pub fn check_prevote_terms(&mut self, c: &CallCtx) -> VResult<()> {
        let n = c.n;
        if matches!(c.kind, CallKind::New) || c.post.term <= c.pre.term {
            return Ok(());
        }
        let pre_vote = self.nodes[&n].raw.as_ref().map(|r| r.raft.pre_vote).unwrap_or(false);
        if !pre_vote {
            return Ok(());
        }
        *self.stats.entry("chk.C16.no_term_inflation").or_insert(0) += 1;
        let ok = match c.kind {
            CallKind::Step(m) => {
                let t = m.get_msg_type();
                let told = m.term >= c.post.term
                    && t != MessageType::MsgRequestPreVote
                    && !(t == MessageType::MsgRequestPreVoteResponse && !m.reject);
                let won_prevote = c.pre.role == StateRole::PreCandidate && t == MessageType::MsgRequestPreVoteResponse && !m.reject && c.post.term == c.pre.term + 1;
                let transfer = t == MessageType::MsgTimeoutNow;
                told || won_prevote || transfer
            }
            _ => false,
        };
        // a node that can win by its own vote needs nobody's consent
        let alone = {
            let me: BTreeSet<u64> = [n].into_iter().collect();
            refmodel::RefConf::from_shape(&c.pre.conf).is_quorum(&me)
        };
        if !ok && !alone {
            let d = format!("node {n} (pre_vote on, {:?}) raised its term {} -> {} in {} without a pre-vote quorum and without a peer telling it", c.pre.role, c.pre.term, c.post.term, kind_name(c.kind));
            return Err(self.violation("C16", "C16.no_term_inflation", n, d, "term_inflated".into()));
        }
        Ok(())
    }
}
