//! Driver: discrete-event scheduler. One PRNG (from the run seed) decides every interleaving,
//! delay, fault and client operation; decisions are materialised as Actions (the Trace).

use std::cmp::Reverse;
use std::collections::{BTreeMap, BTreeSet, BinaryHeap};

use raft::eraftpb::MessageType;
use raft::StateRole;

use crate::action::*;
use crate::prng::Prng;
use crate::world::{Violation, World};

#[derive(Clone, Debug)]
pub struct Profile {
    pub name: &'static str,
    /// other profiles this check rotates through: run i uses `mix[(i / 2) % len]` when i is odd, this profile when
    /// i is even (the broad safety properties are explored under every workload family)
    pub mix: Vec<Profile>,
    pub voters: (u64, u64),
    pub learners_max: u64,
    pub spare_max: u64,
    pub single_voter_pm: u64,
    pub initial_snapshot_pm: u64,
    pub run_len: (u64, u64),
    pub election_tick: (u64, u64),
    pub pre_vote_pm: u64,
    pub check_quorum_pm: u64,
    pub lease_read_pm: u64,
    pub priority_pm: u64,
    pub small_msg_pm: u64,
    pub small_inflight_pm: u64,
    pub small_uncommitted_pm: u64,
    pub paginate_pm: u64,
    pub apply_unpersisted_pm: u64,
    pub batch_append_pm: u64,
    pub skip_bcast_pm: u64,
    pub group_commit_pm: u64,
    pub hetero_pm: u64,
    /// share of nodes using Async / SyncLazy rounds (rest Sync); mixed per round with mix_modes_pm
    pub async_pm: u64,
    pub lazy_pm: u64,
    pub mix_modes_pm: u64,
    pub skip_fsync_pm: u64,
    pub force_ready_pm: u64,
    /// network
    pub drop_pm: u64,
    pub dup_pm: u64,
    /// per-run probability that the election adversary is active (late copies of vote requests, shielding of
    /// candidates of a contested term from leader traffic and from their own clock)
    pub election_adversary_pm: u64,
    /// a membership proposal is followed by a second one a few ms later (racing operators)
    pub conf_burst_pm: u64,
    /// per-node probability of a slow state machine (applies lag far behind commits)
    pub slow_apply_pm: u64,
    /// per-run probability of a membership-heavy workload (5x the membership weight, bursts, slow appliers)
    pub conf_heavy_pm: u64,
    /// after a compaction: what-if mutation sequence on a scratch copy of the node's storage (C19)
    pub storage_exercise_pm: u64,
    /// share of the 'bogus input' events that are (pre-)vote requests from a node outside the configuration
    pub stranger_vote_pm: u64,
    /// after a membership proposal: what-if Changer calls on some node's tracker (C12)
    pub conf_exercise_pm: u64,
    pub slow_msg_pm: u64,
    pub fifo_pm: u64,
    /// client op weights
    pub w_propose: u64,
    pub w_conf: u64,
    pub w_read: u64,
    pub w_transfer: u64,
    pub w_compact: u64,
    pub w_knob: u64,
    pub w_reqsnap: u64,
    pub w_storage_fault: u64,
    pub w_misc: u64,
    pub w_bogus: u64,
    pub client_interval: (u64, u64),
    pub illegal_conf_pm: u64,
    /// faults: mean interval between fault events in ms (0 = none)
    pub fault_interval_ms: u64,
    pub w_crash: u64,
    pub w_partition: u64,
    pub w_clock: u64,
    pub w_stall: u64,
    pub biased_fault_pm: u64,
    pub slow_round_pm: u64,
    pub fsync_delay_ms: (u64, u64),
    /// share of nodes whose disk is very slow (fsync delay x 25: whole elections pass meanwhile)
    pub slow_disk_pm: u64,
    /// share of runs in which the application may tell raft about persistence after sending the persisted messages
    pub defer_notify_pm: u64,
    pub stabilise_pm: u64,
    pub transfer_in_suffix_pm: u64,
    pub lockstep: bool,
}

impl Profile {
    pub fn general() -> Profile {
        Profile {
            name: "general",
            mix: Vec::new(),
            voters: (1, 5),
            learners_max: 2,
            spare_max: 2,
            single_voter_pm: 80,
            initial_snapshot_pm: 150,
            run_len: (600, 2500),
            election_tick: (5, 14),
            pre_vote_pm: 400,
            check_quorum_pm: 400,
            lease_read_pm: 0,
            priority_pm: 100,
            small_msg_pm: 300,
            small_inflight_pm: 300,
            small_uncommitted_pm: 150,
            paginate_pm: 300,
            apply_unpersisted_pm: 150,
            batch_append_pm: 250,
            skip_bcast_pm: 200,
            group_commit_pm: 80,
            hetero_pm: 200,
            async_pm: 350,
            lazy_pm: 250,
            mix_modes_pm: 300,
            skip_fsync_pm: 300,
            force_ready_pm: 30,
            drop_pm: 30,
            dup_pm: 30,
            election_adversary_pm: 150,
            conf_burst_pm: 150,
            slow_apply_pm: 100,
            conf_heavy_pm: 300,
            storage_exercise_pm: 0,
            stranger_vote_pm: 300,
            conf_exercise_pm: 0,
            slow_msg_pm: 60,
            fifo_pm: 300,
            w_propose: 60,
            w_conf: 6,
            w_read: 10,
            w_transfer: 3,
            w_compact: 6,
            w_knob: 3,
            w_reqsnap: 1,
            w_storage_fault: 2,
            w_misc: 3,
            w_bogus: 2,
            client_interval: (2, 30),
            illegal_conf_pm: 250,
            fault_interval_ms: 400,
            w_crash: 5,
            w_partition: 4,
            w_clock: 2,
            w_stall: 2,
            biased_fault_pm: 400,
            slow_round_pm: 100,
            fsync_delay_ms: (1, 60),
            slow_disk_pm: 60,
            defer_notify_pm: 300,
            stabilise_pm: 0,
            transfer_in_suffix_pm: 0,
            lockstep: false,
        }
    }
}

#[derive(Clone, Copy, Debug, PartialEq, Eq, PartialOrd, Ord)]
enum Ev {
    Tick(NodeId),
    Deliver(MsgKey),
    Round(NodeId),
    Fsync(NodeId),
    ApplyEv(NodeId),
    Client,
    Fault,
    Restart(NodeId),
    Heal,
    Start(NodeId),
    Unstall(NodeId),
    Report(NodeId, NodeId, bool),
    Unreachable(NodeId, NodeId),
    Fetched(NodeId),
    ClearStorageFault(NodeId),
    Decommission(NodeId),
    Notify(NodeId),
    ConfFollowUp(NodeId),
}

struct NodeDrv {
    mode: Mode,
    tick_period: u64,
    round_pending: bool,
    fsync_pending: bool,
    apply_pending: bool,
    down: bool,
    stalled: bool,
    eager_compact: bool,
    not_member_since: Option<u64>,
    slow_disk: bool,
    slow_apply: bool,
}

pub struct RunOutcome {
    pub trace: Vec<Action>,
    pub cluster: ClusterCfg,
    pub violation: Option<Violation>,
    pub sim_time_us: u64,
    pub fault_counts: BTreeMap<&'static str, u64>,
}

pub struct Driver<'a> {
    pub p: &'a Profile,
    rng: Prng,
    q: BinaryHeap<Reverse<(u64, u64, Ev)>>,
    seq: u64,
    now: u64,
    nd: BTreeMap<NodeId, NodeDrv>,
    blocked: BTreeSet<(NodeId, NodeId)>,
    delay_across_partition: bool,
    pub world: World,
    pub trace: Vec<Action>,
    next_id: u64,
    drop_pm: u64,
    dup_pm: u64,
    adversary: bool,
    conf_heavy: bool,
    /// swarm: one kind of client operation is five times as frequent in this run (0 = none)
    emphasis: u64,
    /// candidate -> (term, shielded until)
    shield: BTreeMap<NodeId, (u64, u64)>,
    /// leader of a contested term -> its outgoing traffic is held until
    muted: BTreeMap<NodeId, u64>,
    fifo: bool,
    link_last: BTreeMap<(NodeId, NodeId), u64>,
    mix_modes: bool,
    faults: BTreeMap<&'static str, u64>,
    biased_fault_armed: bool,
    last_leader_count: u64,
    last_conf_applied: u64,
    last_snapshots: u64,
    calm: bool,
    defer_notify: bool,
    /// persistence notices arrive later than election timeouts in this run
    late_notify: bool,
}

const MS: u64 = 1000;
const TICK_US: u64 = 10 * MS;

pub fn gen_node_cfg(p: &Profile, rng: &mut Prng) -> NodeCfg {
    let et = rng.range(p.election_tick.0, p.election_tick.1) as usize;
    let hb = rng.range(1, (et as u64 / 3).max(1)) as usize;
    let check_quorum = rng.pm(p.check_quorum_pm);
    let max_size_per_msg = if rng.pm(p.small_msg_pm) { *rng.pick(&[0u64, 40, 120, 400]) } else { u64::MAX };
    let mut max_uncommitted = if rng.pm(p.small_uncommitted_pm) { *rng.pick(&[64u64, 200, 1000]) } else { u64::MAX };
    if max_uncommitted < max_size_per_msg && max_size_per_msg != u64::MAX {
        max_uncommitted = max_size_per_msg;
    }
    let max_size_per_msg = if max_uncommitted != u64::MAX && max_size_per_msg == u64::MAX { max_uncommitted } else { max_size_per_msg };
    NodeCfg {
        election_tick: et,
        heartbeat_tick: hb,
        min_election_tick: 0,
        max_election_tick: 0,
        pre_vote: rng.pm(p.pre_vote_pm),
        check_quorum,
        lease_read: check_quorum && rng.pm(p.lease_read_pm),
        skip_bcast_commit: rng.pm(p.skip_bcast_pm),
        batch_append: rng.pm(p.batch_append_pm),
        priority: if rng.pm(p.priority_pm) { rng.range(0, 3) as i64 - 1 } else { 0 },
        max_size_per_msg,
        max_inflight_msgs: if rng.pm(p.small_inflight_pm) { *rng.pick(&[1usize, 2, 3, 4, 8]) } else { 256 },
        max_uncommitted_size: max_uncommitted,
        max_committed_size_per_ready: if rng.pm(p.paginate_pm) { *rng.pick(&[0u64, 30, 100]) } else { u64::MAX },
        max_apply_unpersisted_log_limit: if rng.pm(p.apply_unpersisted_pm) { *rng.pick(&[1u64, 5, u64::MAX / 2]) } else { 0 },
        disable_proposal_forwarding: rng.pm(100),
    }
}

pub fn gen_cluster(p: &Profile, rng: &mut Prng) -> ClusterCfg {
    let nv = if rng.pm(p.single_voter_pm) { 1 } else { rng.range(p.voters.0, p.voters.1) };
    let nl = rng.range(0, p.learners_max);
    let spare = rng.range(0, p.spare_max);
    let voters: Vec<u64> = (1..=nv).collect();
    let learners: Vec<u64> = (nv + 1..=nv + nl).collect();
    let base = gen_node_cfg(p, rng);
    let hetero = rng.pm(p.hetero_pm);
    let mut nodes = BTreeMap::new();
    for id in 1..=(nv + nl + spare) {
        let c = if hetero {
            let mut c = gen_node_cfg(p, rng);
            // pre_vote / check_quorum mixtures are legal but keep election ticks equal
            c.election_tick = base.election_tick;
            c.heartbeat_tick = base.heartbeat_tick;
            // mixing pre_vote / check_quorum settings inside one group is unsupported (a node
            // without them can get stuck behind peers that ignore its vote requests)
            c.pre_vote = base.pre_vote;
            c.check_quorum = base.check_quorum;
            c.lease_read = base.lease_read && c.check_quorum;
            c
        } else {
            base.clone()
        };
        nodes.insert(id, c);
    }
    let (initial_index, initial_term) = if rng.pm(p.initial_snapshot_pm) { (rng.range(1, 20), rng.range(1, 3)) } else { (0, 0) };
    ClusterCfg { voters, learners, initial_index, initial_term, nodes, timeout_salt: rng.next_u64() }
}

impl<'a> Driver<'a> {
    pub fn new(p: &'a Profile, seed: u64, focus: Option<&'static str>) -> Driver<'a> {
        let mut rng = Prng::new(seed);
        let cluster = gen_cluster(p, &mut rng);
        let mut world = World::new(cluster);
        world.focus = focus;
        let mut nd = BTreeMap::new();
        let ids: Vec<NodeId> = world.nodes.keys().cloned().collect();
        for id in &ids {
            let mode = {
                let x = rng.below(1000);
                if x < p.async_pm {
                    Mode::Async
                } else if x < p.async_pm + p.lazy_pm {
                    Mode::SyncLazy
                } else {
                    Mode::Sync
                }
            };
            // clock skew: tick period x [0.5, 2]
            let tick_period = TICK_US * rng.range(50, 200) / 100;
            nd.insert(
                *id,
                NodeDrv {
                    mode,
                    tick_period,
                    round_pending: false,
                    fsync_pending: false,
                    apply_pending: false,
                    down: false,
                    stalled: false,
                    eager_compact: rng.pm(150),
                    not_member_since: None,
                    slow_disk: rng.pm(p.slow_disk_pm),
                    slow_apply: rng.pm(p.slow_apply_pm),
                },
            );
        }
        let drop_pm = if rng.pm(500) { p.drop_pm } else { 0 };
        let dup_pm = if rng.pm(500) { p.dup_pm } else { 0 };
        let adversary = p.election_adversary_pm > 0 && rng.pm(p.election_adversary_pm);
        let conf_heavy = rng.pm(p.conf_heavy_pm);
        let emphasis = if rng.pm(500) { rng.range(2, 8) } else { 0 };
        let fifo = rng.pm(p.fifo_pm);
        let mix_modes = rng.pm(p.mix_modes_pm);
        let delay_across_partition = rng.pm(500);
        let mut d = Driver {
            p,
            rng,
            q: BinaryHeap::new(),
            seq: 0,
            now: 0,
            nd,
            blocked: BTreeSet::new(),
            delay_across_partition,
            world,
            trace: Vec::new(),
            next_id: 1,
            drop_pm,
            dup_pm,
            adversary,
            conf_heavy,
            emphasis,
            shield: BTreeMap::new(),
            muted: BTreeMap::new(),
            fifo,
            link_last: BTreeMap::new(),
            mix_modes,
            faults: BTreeMap::new(),
            biased_fault_armed: false,
            last_leader_count: 0,
            last_conf_applied: 0,
            last_snapshots: 0,
            calm: false,
            defer_notify: false,
            late_notify: false,
        };
        d.defer_notify = d.rng.pm(p.defer_notify_pm);
        d.late_notify = d.defer_notify && d.rng.pm(300);
        for id in ids {
            if d.world.nodes[&id].running() {
                let phase = d.rng.below(d.nd[&id].tick_period);
                d.push(phase, Ev::Tick(id));
            }
        }
        let t = d.rng.range(p.client_interval.0, p.client_interval.1) * MS;
        d.push(t, Ev::Client);
        if p.fault_interval_ms > 0 {
            let t = d.rng.range(1, 2 * p.fault_interval_ms) * MS;
            d.push(t, Ev::Fault);
        }
        d
    }

    fn push(&mut self, delay: u64, ev: Ev) {
        self.seq += 1;
        self.q.push(Reverse((self.now + delay, self.seq, ev)));
    }

    fn fault(&mut self, k: &'static str) {
        *self.faults.entry(k).or_insert(0) += 1;
    }

    fn act(&mut self, a: Action) -> Result<(), Violation> {
        self.trace.push(a);
        let a = self.trace.last().unwrap().clone();
        self.world.apply(&a)?;
        self.after_action(&a);
        Ok(())
    }

    fn touched(a: &Action) -> Option<NodeId> {
        Some(match a {
            Action::Tick { n }
            | Action::AppReady { n, .. }
            | Action::Fsync { n, .. }
            | Action::Notify { n }
            | Action::NotifyOne { n }
            | Action::Apply { n, .. }
            | Action::Propose { n, .. }
            | Action::ProposeBatch { n, .. }
            | Action::ProposeConf { n, .. }
            | Action::ReadIndex { n, .. }
            | Action::Transfer { n, .. }
            | Action::Campaign { n }
            | Action::RequestSnapshot { n }
            | Action::Ping { n }
            | Action::ReportUnreachable { n, .. }
            | Action::ReportSnapshot { n, .. }
            | Action::Compact { n, .. }
            | Action::StorageExercise { n, .. }
            | Action::ConfExercise { n, .. }
            | Action::SetKnob { n, .. }
            | Action::EntriesFetched { n }
            | Action::Restart { n }
            | Action::StartNode { n }
            | Action::Bogus { n, .. }
            | Action::StrangerVote { n, .. } => *n,
            Action::Deliver { k } => k.t,
            _ => return None,
        })
    }

    fn latency(&mut self) -> u64 {
        if self.rng.pm(self.p.slow_msg_pm) {
            // heavy tail: beyond election timeouts
            self.rng.range(50, 1500) * MS
        } else {
            self.rng.range(200, 6000)
        }
    }

    fn after_action(&mut self, a: &Action) {
        // fate of newly released messages
        let released: Vec<MsgKey> = self.world.released.clone();
        for k in released {
            let to_dead = !self.world.nodes.get(&k.t).map(|n| n.running()).unwrap_or(false);
            let mtype = self.world.flights.get(&k).map(|f| f.msg.get_msg_type());
            if to_dead {
                if self.rng.pm(300) {
                    let d = self.rng.range(100, 3000);
                    self.push(d, Ev::Unreachable(k.f, k.t));
                }
                if mtype == Some(MessageType::MsgSnapshot) {
                    let ok = self.rng.pm(150); // wrong report sometimes
                    let d = self.rng.range(1, 40) * MS;
                    self.push(d, Ev::Report(k.f, k.t, ok));
                }
            }
            let mut lat = self.latency();
            if self.fifo {
                let last = self.link_last.get(&(k.f, k.t)).cloned().unwrap_or(0);
                let at = (self.now + lat).max(last + 1);
                lat = at - self.now;
                self.link_last.insert((k.f, k.t), at);
            }
            if self.adversary && mtype == Some(MessageType::MsgRequestVote) && !matches!(a, Action::Dup { .. }) && self.rng.pm(400) {
                // election adversary: this vote request is slow (the candidate records the first answer of a
                // voter only, so a late original matters more than a late copy)
                lat = self.rng.range(30, 600) * MS;
                self.fault("adversary_slow_vote_request");
            }
            if self.adversary && mtype == Some(MessageType::MsgRequestVote) && !matches!(a, Action::Dup { .. }) && self.rng.pm(300) {
                // election adversary: a copy of the vote request that arrives late (after the voter may have
                // crashed, campaigned itself, ...)
                self.trace.push(Action::Dup { k });
                let _ = self.world.apply(&Action::Dup { k });
                self.fault("adversary_late_vote_request_copy");
                let k2s: Vec<MsgKey> = self.world.released.clone();
                for k2 in k2s {
                    let l2 = self.rng.range(30, 600) * MS;
                    self.push(l2, Ev::Deliver(k2));
                }
            }
            if self.rng.pm(self.dup_pm) && !matches!(a, Action::Dup { .. }) {
                // a Dup action is issued when the original is delivered-scheduled; do it now
                self.trace.push(Action::Dup { k });
                let _ = self.world.apply(&Action::Dup { k });
                self.fault("duplicate");
                let k2s: Vec<MsgKey> = self.world.released.clone();
                for k2 in k2s {
                    let l2 = self.latency();
                    self.push(l2, Ev::Deliver(k2));
                }
            }
            self.push(lat, Ev::Deliver(k));
        }
        if let Some(n) = Self::touched(a) {
            self.schedule_node_work(n);
        }
        if let Action::Deliver { k } = a {
            self.schedule_node_work(k.t);
        }
        // operator: start nodes that became members; biased fault triggers
        self.operator_watch();
    }

    fn schedule_node_work(&mut self, n: NodeId) {
        let (has_ready, wq, outstanding, applyq, running) = match self.world.nodes.get(&n) {
            Some(x) if x.running() => (
                x.raw.as_ref().unwrap().has_ready(),
                !x.disk.wq.is_empty(),
                !x.outstanding.is_empty(),
                !x.apply_q.is_empty(),
                true,
            ),
            _ => (false, false, false, false, false),
        };
        if !running {
            return;
        }
        let slow = self.rng.pm(self.p.slow_round_pm);
        let nd = self.nd.get_mut(&n).unwrap();
        if nd.stalled {
            return;
        }
        let slow_disk = nd.slow_disk;
        let mut pushes: Vec<(u64, Ev)> = Vec::new();
        if has_ready && !nd.round_pending {
            nd.round_pending = true;
            let d = if slow { self.rng.range(5, 120) * MS } else { self.rng.range(50, 1500) };
            pushes.push((d, Ev::Round(n)));
        }
        if (wq || outstanding) && !nd.fsync_pending {
            nd.fsync_pending = true;
            let mut d = self.rng.range(self.p.fsync_delay_ms.0, self.p.fsync_delay_ms.1) * MS;
            if slow_disk {
                d *= 25;
            }
            pushes.push((d, Ev::Fsync(n)));
        }
        if applyq && !nd.apply_pending {
            nd.apply_pending = true;
            let mut d = if slow { self.rng.range(5, 200) * MS } else { self.rng.range(100, 3000) };
            if nd.slow_apply {
                d *= 30;
            }
            pushes.push((d, Ev::ApplyEv(n)));
        }
        for (d, e) in pushes {
            self.push(d, e);
        }
    }

    fn leader(&self) -> Option<NodeId> {
        let mut best: Option<(u64, NodeId)> = None;
        for x in self.world.nodes.values() {
            if x.running() && x.obs.role == StateRole::Leader {
                if best.map(|b| x.obs.term > b.0).unwrap_or(true) {
                    best = Some((x.obs.term, x.id));
                }
            }
        }
        best.map(|b| b.1)
    }

    fn random_running(&mut self) -> Option<NodeId> {
        let ids = self.world.running_ids();
        if ids.is_empty() {
            None
        } else {
            Some(*self.rng.pick(&ids))
        }
    }

    fn target_node(&mut self, leader_pm: u64) -> Option<NodeId> {
        if self.rng.pm(leader_pm) {
            if let Some(l) = self.leader() {
                return Some(l);
            }
        }
        self.random_running()
    }

    fn operator_watch(&mut self) {
        // nodes named by the configuration of any running node but not yet started
        let mut to_start = Vec::new();
        for (id, x) in &self.world.nodes {
            if !x.started && !x.decommissioned {
                let wanted = self.world.nodes.values().any(|y| y.running() && y.obs.conf.is_member(*id));
                if wanted {
                    to_start.push(*id);
                }
            }
        }
        for id in to_start {
            // mark as started-soon by pushing once: use not_member_since as a flag holder
            let nd = self.nd.get_mut(&id).unwrap();
            if nd.not_member_since.is_none() {
                nd.not_member_since = Some(self.now);
                let d = self.rng.range(1, 80) * MS;
                self.push(d, Ev::Start(id));
            }
        }
        if self.adversary {
            self.adversary_watch();
        }
        // biased faults: arm when something interesting just happened
        let leaders = *self.world.stats.get("leaders_elected").unwrap_or(&0);
        let confs = *self.world.stats.get("conf_changes_applied").unwrap_or(&0);
        let snaps = *self.world.stats.get("snapshots_installed").unwrap_or(&0);
        if (leaders != self.last_leader_count || confs != self.last_conf_applied || snaps != self.last_snapshots)
            && self.p.fault_interval_ms > 0
            && !self.biased_fault_armed
            && self.rng.pm(self.p.biased_fault_pm)
        {
            self.biased_fault_armed = true;
            let d = self.rng.range(0, 30) * MS;
            self.push(d, Ev::Fault);
        }
        self.last_leader_count = leaders;
        self.last_conf_applied = confs;
        self.last_snapshots = snaps;
    }

    /// Election adversary: a node that is Candidate of a term which already has (had) a leader or another candidate
    /// is shielded for a while: only vote responses reach it and its clock stalls, so it stays a candidate of
    /// that term. Legal (slow node, delayed messages); fruitless unless some voter grants a second vote.
    fn adversary_watch(&mut self) {
        let mut cands: Vec<(NodeId, u64)> = Vec::new();
        for (id, x) in &self.world.nodes {
            if x.running() && x.obs.role == StateRole::Candidate {
                cands.push((*id, x.obs.term));
            }
        }
        let now = self.now;
        self.shield.retain(|id, (t, until)| *until > now && cands.contains(&(*id, *t)));
        for (y, t) in cands {
            if self.shield.contains_key(&y) {
                continue;
            }
            let contested = self.world.ghost.leader_of.get(&t).map(|l| *l != y).unwrap_or(false)
                || self.world.nodes.iter().any(|(id, x)| *id != y && x.running() && x.obs.term == t && matches!(x.obs.role, StateRole::Leader | StateRole::Candidate));
            if contested && self.rng.pm(600) {
                let until = self.now + self.rng.range(100, 900) * MS;
                self.shield.insert(y, (t, until));
                self.fault("adversary_shielded_candidate");
                if let Some(l) = self.world.ghost.leader_of.get(&t).cloned() {
                    if l != y && self.rng.pm(500) {
                        // the winner's first messages are slow: its voters time out and campaign
                        self.muted.insert(l, until);
                        self.fault("adversary_muted_leader");
                    }
                }
            }
        }
    }

    fn shielded(&self, n: NodeId) -> Option<u64> {
        match self.shield.get(&n) {
            Some((t, until)) if *until > self.now => {
                let x = &self.world.nodes[&n];
                if x.running() && x.obs.role == StateRole::Candidate && x.obs.term == *t {
                    Some(*until)
                } else {
                    None
                }
            }
            _ => None,
        }
    }

    fn round_mode(&mut self, n: NodeId) -> Mode {
        let base = self.nd[&n].mode;
        if self.mix_modes && self.rng.pm(300) {
            *self.rng.pick(&[Mode::Sync, Mode::SyncLazy, Mode::Async])
        } else {
            base
        }
    }

    fn gen_conf_change(&mut self, n: NodeId) -> Action {
        let id = self.next_id;
        self.next_id += 1;
        let conf = self.world.nodes[&n].obs.conf.clone();
        let universe: Vec<NodeId> = self.world.nodes.keys().cloned().collect();
        let v1 = self.rng.pm(250);
        if self.rng.pm(self.p.illegal_conf_pm) {
            // arbitrary change list, possibly illegal
            let k = self.rng.range(0, 3);
            let mut changes = Vec::new();
            for _ in 0..k {
                let t = self.rng.below(3) as u8;
                let id = if self.rng.pm(100) { 0 } else if self.rng.pm(100) { 99 } else { *self.rng.pick(&universe) };
                // a voter that can never be started would make the group unavailable for good (client error)
                let t = if id == 99 && t == 0 { 2 } else { t };
                changes.push((t, id));
            }
            let transition = self.rng.below(3) as u8;
            return Action::ProposeConf { n, id, v1, transition, changes };
        }
        if conf.joint() && self.rng.pm(700) {
            // leave joint
            return Action::ProposeConf { n, id, v1: false, transition: 0, changes: vec![] };
        }
        let mut conf = conf;
        conf.learners.retain(|x| universe.contains(x)); // never promote an id that can never be started
        let members = conf.members();
        let outside: Vec<NodeId> = universe.iter().filter(|x| !members.contains(x)).cloned().collect();
        let mut changes: Vec<Change> = Vec::new();
        let nchanges = if self.rng.pm(350) { self.rng.range(2, 3) } else { 1 };
        let mut voters: Vec<NodeId> = conf.voters.clone();
        for _ in 0..nchanges {
            let choice = self.rng.below(100);
            if choice < 35 && !outside.is_empty() {
                let x = *self.rng.pick(&outside);
                changes.push((if self.rng.pm(600) { 0 } else { 2 }, x));
            } else if choice < 50 && !conf.learners.is_empty() {
                let x = *self.rng.pick(&conf.learners);
                changes.push((0, x)); // promote
            } else if choice < 65 && voters.len() > 2 {
                let x = *self.rng.pick(&voters);
                voters.retain(|v| *v != x);
                changes.push((2, x)); // demote
            } else if choice < 90 && voters.len() > 2 {
                let x = *self.rng.pick(&voters);
                voters.retain(|v| *v != x);
                changes.push((1, x)); // remove voter
            } else if !conf.learners.is_empty() {
                let x = *self.rng.pick(&conf.learners);
                changes.push((1, x));
            } else if !outside.is_empty() {
                let x = *self.rng.pick(&outside);
                changes.push((2, x));
            }
        }
        let transition = if changes.len() > 1 || self.rng.pm(150) { self.rng.below(3) as u8 } else { 0 };
        Action::ProposeConf { n, id, v1: v1 && changes.len() == 1 && transition == 0, transition, changes }
    }

    fn client_op(&mut self) -> Result<(), Violation> {
        let p = self.p;
        let w_conf = if self.conf_heavy { p.w_conf * 5 } else { p.w_conf };
        let mut ws = [p.w_propose, w_conf, p.w_read, p.w_transfer, p.w_compact, p.w_knob, p.w_reqsnap, p.w_storage_fault, p.w_misc, p.w_bogus];
        if self.emphasis >= 2 && (self.emphasis as usize) < ws.len() {
            ws[self.emphasis as usize] *= 5;
        }
        let mut which = self.rng.weighted(&ws);
        if self.calm && (which == 1 || which == 3) {
            which = 0; // the lock-step scenario excludes membership changes and requested transfers
        }
        match which {
            0 => {
                if let Some(n) = self.target_node(700) {
                    let id = self.next_id;
                    self.next_id += 1;
                    let size = match self.rng.below(10) {
                        0 => 0,
                        1 => self.rng.range(300, 700) as u32,
                        _ => self.rng.range(8, 60) as u32,
                    };
                    self.act(Action::Propose { n, id, size })?;
                }
            }
            1 => {
                if let Some(n) = self.target_node(800) {
                    let a = self.gen_conf_change(n);
                    // some applications batch proposals into one MsgPropose
                    let a = if self.rng.pm(150) {
                        if let Action::ProposeConf { n, id, v1, transition, changes } = a {
                            self.next_id += 8;
                            Action::ProposeBatch { n, id: id * 1000 + 500_000_000, before: self.rng.range(0, 2) as u8, after: self.rng.range(0, 2) as u8, conf: Some((v1, transition, changes)) }
                        } else {
                            a
                        }
                    } else {
                        a
                    };
                    self.act(a)?;
                    if self.rng.pm(self.p.conf_exercise_pm) {
                        if let Some(x) = self.random_running() {
                            let seed = self.rng.next_u64();
                            self.act(Action::ConfExercise { n: x, seed })?;
                        }
                    }
                    if self.rng.pm(if self.conf_heavy { 500 } else { self.p.conf_burst_pm }) {
                        let d = self.rng.range(2, 60) * MS;
                        self.push(d, Ev::ConfFollowUp(n));
                    }
                }
            }
            2 => {
                if let Some(n) = self.target_node(400) {
                    let id = self.next_id;
                    self.next_id += 1;
                    self.act(Action::ReadIndex { n, id })?;
                }
            }
            3 => {
                if let Some(n) = self.target_node(700) {
                    let ids: Vec<NodeId> = self.world.nodes.keys().cloned().collect();
                    let target = if self.rng.pm(80) { 99 } else { *self.rng.pick(&ids) };
                    self.act(Action::Transfer { n, target })?;
                }
            }
            4 => {
                if let Some(n) = self.random_running() {
                    let back = if self.rng.pm(500) { 0 } else { self.rng.range(1, 8) };
                    self.act(Action::Compact { n, back })?;
                    if self.rng.pm(self.p.storage_exercise_pm) {
                        let seed = self.rng.next_u64();
                        self.act(Action::StorageExercise { n, seed })?;
                    }
                }
            }
            5 => {
                if let Some(n) = self.target_node(700) {
                    let ids: Vec<NodeId> = self.world.nodes.keys().cloned().collect();
                    let peer = *self.rng.pick(&ids);
                    let knob = match self.rng.below(11) {
                        0 | 1 | 2 => Knob::MaxInflight { peer, cap: *self.rng.pick(&[0usize, 1, 2, 3, 5, 16]) },
                        3 => Knob::BatchAppend(self.rng.pm(500)),
                        4 => Knob::SkipBcastCommit(self.rng.pm(500)),
                        5 => Knob::MaxCommittedSizePerReady(*self.rng.pick(&[0u64, 50, u64::MAX])),
                        6 => Knob::Priority(self.rng.range(0, 3) as i64 - 1),
                        // applying unpersisted entries is documented as a leader-only option (raft resets it on
                        // every step-down); the simulated application only sets it on a node it sees as leader
                        7 if self.world.nodes[&n].obs.role == StateRole::Leader => Knob::MaxApplyUnpersisted(*self.rng.pick(&[0u64, 1, 5, 1000])),
                        7 => Knob::FreeInflightBuffers,
                        8 => Knob::FreeInflightBuffers,
                        9 => {
                            if self.rng.pm(self.p.group_commit_pm.max(100)) {
                                if self.rng.pm(500) {
                                    Knob::AssignAllGroups { seed: self.rng.next_u64(), k: self.rng.range(1, 3) }
                                } else {
                                    Knob::AssignGroup { peer, group: self.rng.range(1, 3) }
                                }
                            } else {
                                Knob::FreeInflightBuffers
                            }
                        }
                        _ => {
                            if self.rng.pm(self.p.group_commit_pm) {
                                Knob::GroupCommit(self.rng.pm(700))
                            } else {
                                Knob::FreeInflightBuffers
                            }
                        }
                    };
                    self.act(Action::SetKnob { n, knob })?;
                }
            }
            6 => {
                if let Some(n) = self.random_running() {
                    self.act(Action::RequestSnapshot { n })?;
                }
            }
            7 => {
                if let Some(n) = self.target_node(700) {
                    let log = self.rng.pm(600);
                    let snap = !log || self.rng.pm(300);
                    self.act(Action::StorageFault { n, log_unavailable: log, snap_unavailable: snap })?;
                    self.fault("storage_transient_error_window");
                    let d = self.rng.range(5, 150) * MS;
                    if log {
                        self.push(d, Ev::Fetched(n));
                    }
                    self.push(d + 1, Ev::ClearStorageFault(n));
                }
            }
            8 => {
                if let Some(n) = self.random_running() {
                    let ids: Vec<NodeId> = self.world.nodes.keys().cloned().collect();
                    let peer = *self.rng.pick(&ids);
                    let a = match self.rng.below(5) {
                        0 => Action::Ping { n },
                        // RawNode::campaign() on a non-voter is the application's decision and outside
                        // the properties (C09: "on its own"); the simulated application never does it.
                        1 if self.world.nodes[&n].obs.promotable => Action::Campaign { n },
                        2 => Action::ReportUnreachable { n, peer },
                        3 => Action::ReportSnapshot { n, peer, ok: self.rng.pm(500) },
                        _ => Action::Ping { n },
                    };
                    self.act(a)?;
                }
            }
            _ => {
                if let Some(n) = self.random_running() {
                    let ids: Vec<NodeId> = self.world.nodes.keys().cloned().collect();
                    let from = if self.rng.pm(300) { 77 } else { *self.rng.pick(&ids) };
                    let kind = self.rng.below(19) as u8;
                    let term_delta = self.rng.range(0, 2) as i8 - 1;
                    if !self.calm && self.rng.pm(self.p.stranger_vote_pm) {
                        // a removed / misconfigured node that keeps campaigning
                        let a = Action::StrangerVote { n, from: 77, term_delta: self.rng.range(0, 2) as u8, pre: self.rng.pm(300), fresh: self.rng.pm(500) };
                        self.fault("vote_request_from_outside_the_configuration");
                        self.act(a)?;
                    } else {
                        self.act(Action::Bogus { n, kind, from, term_delta })?;
                    }
                }
            }
        }
        Ok(())
    }

    fn inject_fault(&mut self) -> Result<(), Violation> {
        let p = self.p;
        let which = self.rng.weighted(&[p.w_crash, p.w_partition, p.w_clock, p.w_stall]);
        match which {
            0 => {
                // crash (bias: the leader half of the time); never more than a minority down for long
                if let Some(n) = self.target_node(500) {
                    let wq = self.world.nodes[&n].disk.wq.len() as u32;
                    let keep = if wq == 0 { 0 } else { self.rng.range(0, wq as u64) as u32 };
                    let torn = if self.rng.pm(300) { self.rng.range(1, 3) as u32 } else { 0 };
                    if wq > 0 && keep < wq {
                        self.fault("crash_losing_unfsynced_writes");
                    } else {
                        self.fault("crash");
                    }
                    self.act(Action::Crash { n, keep, torn })?;
                    let nd = self.nd.get_mut(&n).unwrap();
                    nd.down = true;
                    nd.round_pending = false;
                    nd.fsync_pending = false;
                    nd.apply_pending = false;
                    let d = if self.rng.pm(300) { self.rng.range(500, 4000) } else { self.rng.range(5, 300) } * MS;
                    self.push(d, Ev::Restart(n));
                }
            }
            1 => {
                let ids: Vec<NodeId> = self.world.nodes.keys().cloned().collect();
                if ids.len() >= 2 {
                    self.blocked.clear();
                    let style = self.rng.below(4);
                    let mut side: BTreeSet<NodeId> = BTreeSet::new();
                    if style == 0 {
                        if let Some(l) = self.leader() {
                            side.insert(l); // isolate the leader
                        }
                    }
                    if side.is_empty() {
                        for id in &ids {
                            if self.rng.pm(400) {
                                side.insert(*id);
                            }
                        }
                    }
                    let one_way = style == 3;
                    for a in &ids {
                        for b in &ids {
                            if a != b && side.contains(a) != side.contains(b) {
                                if one_way && side.contains(a) {
                                    continue;
                                }
                                self.blocked.insert((*a, *b));
                            }
                        }
                    }
                    self.fault("partition");
                    let d = self.rng.range(50, 3000) * MS;
                    self.push(d, Ev::Heal);
                }
            }
            2 => {
                if let Some(n) = self.random_running() {
                    let et = self.world.nodes[&n].cfg.election_tick as u64;
                    let k = self.rng.range(1, 3 * et);
                    self.fault("clock_jump");
                    for _ in 0..k {
                        self.act(Action::Tick { n })?;
                    }
                }
            }
            _ => {
                if let Some(n) = self.random_running() {
                    let nd = self.nd.get_mut(&n).unwrap();
                    if !nd.stalled {
                        nd.stalled = true;
                        self.fault("stall");
                        let d = self.rng.range(50, 2000) * MS;
                        self.push(d, Ev::Unstall(n));
                    }
                }
            }
        }
        Ok(())
    }

    pub fn run_with_world(mut self) -> (RunOutcome, World) {
        let budget = self.rng.range(self.p.run_len.0, self.p.run_len.1) as usize;
        let mut violation = None;
        if self.p.lockstep {
            violation = self.run_lockstep(budget).err();
        }
        while !self.p.lockstep && self.trace.len() < budget {
            let Reverse((at, _, ev)) = match self.q.pop() {
                Some(e) => e,
                None => break,
            };
            self.now = at;
            if let Err(v) = self.handle(ev) {
                violation = Some(v);
                break;
            }
        }
        if violation.is_none() && self.rng.pm(self.p.stabilise_pm) {
            let seed = self.rng.next_u64();
            let transfer = self.rng.pm(self.p.transfer_in_suffix_pm);
            if let Err(v) = self.act(Action::Stabilise { seed, transfer }) {
                violation = Some(v);
            }
        }
        if violation.is_none() {
            if let Err(v) = self.world.full_recheck() {
                violation = Some(v);
            }
        }
        let cluster = self.world.cfg.clone();
        let mut faults = self.faults;
        for (k, name) in [
            ("msgs_dropped", "message_loss"),
            ("msgs_duplicated", "message_duplicate"),
            ("crashes_losing_writes", "crash_lost_unfsynced_writes"),
            ("crashes_torn", "torn_write"),
            ("restarts", "restart"),
            ("fsync_skipped", "fsync_skipped_must_sync_false"),
            ("deliver_to_dead", "message_to_dead_node"),
        ] {
            if let Some(v) = self.world.stats.get(k) {
                faults.insert(name, *v);
            }
        }
        (RunOutcome { trace: self.trace, cluster, violation, sim_time_us: self.now, fault_counts: faults }, self.world)
    }

    fn pump(&mut self, until_actions: usize) -> Result<(), Violation> {
        while self.trace.len() < until_actions {
            let Reverse((at, _, ev)) = match self.q.pop() {
                Some(e) => e,
                None => break,
            };
            self.now = at;
            self.handle(ev)?;
        }
        Ok(())
    }

    /// C16 scenario: chaotic warm-up, calm phase, then lock-step rounds of a majority against an
    /// adversarial minority.
    fn run_lockstep(&mut self, budget: usize) -> Result<(), Violation> {
        self.pump(budget / 3)?;
        // calm: heal, no loss, no faults, restart everything
        self.calm = true;
        self.blocked.clear();
        self.drop_pm = 0;
        self.dup_pm = 0;
        self.adversary = false;
        self.shield.clear();
        self.muted.clear();
        let ids: Vec<NodeId> = self.world.nodes.keys().cloned().collect();
        for n in &ids {
            if self.world.nodes[n].started && !self.world.nodes[n].running() && !self.world.nodes[n].decommissioned {
                self.act(Action::Restart { n: *n })?;
                let nd = self.nd.get_mut(n).unwrap();
                nd.down = false;
                nd.stalled = false;
            }
        }
        let mut established = false;
        // in half of the runs the cluster is idle during the phase: the minority's logs stay up to date, so only
        // the lease (not the log check) stands between its (pre-)vote requests and a grant
        let idle = self.rng.pm(500);
        for attempt in 0..6 {
            let target = self.trace.len() + 120 + attempt * 60;
            self.pump(target)?;
            // choose a majority around the leader
            let l = match self.leader() {
                Some(l) => l,
                None => continue,
            };
            let conf = self.world.nodes[&l].obs.conf.clone();
            let mut voters: Vec<NodeId> = conf.voters.iter().cloned().filter(|v| *v != l && self.world.nodes.get(v).map(|x| x.running()).unwrap_or(false)).collect();
            self.rng.shuffle(&mut voters);
            let need = conf.voters.len() / 2; // plus the leader = majority
            if voters.len() < need {
                continue;
            }
            let extra = if voters.len() > need && self.rng.pm(300) { 1 } else { 0 };
            let mut majority = vec![l];
            majority.extend(voters.into_iter().take(need + extra));
            majority.sort_unstable();
            if idle && self.rng.pm(400) {
                // a follower of the majority restarts right before the phase: it knows its term but not its leader,
                // and in an idle cluster only heartbeats will reach it
                let followers: Vec<NodeId> = majority.iter().cloned().filter(|x| *x != l).collect();
                if !followers.is_empty() {
                    let f = *self.rng.pick(&followers);
                    let keep = self.world.nodes[&f].disk.wq.len() as u32;
                    self.act(Action::Crash { n: f, keep, torn: 0 })?;
                    self.act(Action::Restart { n: f })?;
                    self.fault("restart_majority_follower_before_lockstep");
                }
            }
            self.act(Action::Lockstep { majority: majority.clone() })?;
            if self.world.lockstep.is_some() {
                established = true;
                break;
            }
        }
        if !established {
            return Ok(());
        }
        let (maj, leader) = {
            let ls = self.world.lockstep.as_ref().unwrap();
            (ls.majority.clone(), ls.leader)
        };
        let minority: Vec<NodeId> = ids.iter().filter(|n| !maj.contains(n) && self.world.nodes[n].started).cloned().collect();
        let rounds = self.rng.range(30, 120);
        for _ in 0..rounds {
            self.act(Action::Lockstep { majority: maj.clone() })?;
            if self.world.lockstep.is_none() {
                break; // cancelled during the grace period
            }
            // adversary
            let k = self.rng.range(0, 12);
            for _ in 0..k {
                let involving: Vec<MsgKey> = self.world.flights.keys().filter(|k| !maj.contains(&k.f) || !maj.contains(&k.t)).cloned().collect();
                let choice = self.rng.below(100);
                if choice < 30 && !minority.is_empty() {
                    let n = *self.rng.pick(&minority);
                    let burst = if self.rng.pm(200) { self.rng.range(2, 3 * self.world.nodes[&n].cfg.election_tick as u64) } else { 1 };
                    for _ in 0..burst {
                        self.act(Action::Tick { n })?;
                    }
                } else if choice < 60 && !involving.is_empty() {
                    let k = *self.rng.pick(&involving);
                    self.act(Action::Deliver { k })?;
                } else if choice < 68 && !involving.is_empty() {
                    let k = *self.rng.pick(&involving);
                    self.act(Action::Drop { k })?;
                    self.fault("message_loss_minority");
                } else if choice < 74 && !involving.is_empty() {
                    let k = *self.rng.pick(&involving);
                    self.act(Action::Dup { k })?;
                    self.fault("duplicate");
                } else if choice < 88 && !minority.is_empty() {
                    let n = *self.rng.pick(&minority);
                    let mode = self.round_mode(n);
                    self.act(Action::AppReady { n, mode, skip_fsync: false, force: false })?;
                    self.act(Action::Fsync { n, count: u32::MAX, defer: false })?;
                    self.act(Action::Apply { n, count: u32::MAX })?;
                } else if choice < 93 && !minority.is_empty() {
                    let n = *self.rng.pick(&minority);
                    if self.world.nodes[&n].running() {
                        let wq = self.world.nodes[&n].disk.wq.len() as u64;
                        let keep = self.rng.range(0, wq) as u32;
                        self.act(Action::Crash { n, keep, torn: 0 })?;
                        self.fault("crash_minority");
                    } else {
                        self.act(Action::Restart { n })?;
                    }
                } else if !idle {
                    let id = self.next_id;
                    self.next_id += 1;
                    self.act(Action::Propose { n: leader, id, size: 12 })?;
                }
            }
            // held messages are released after the calm phase ended: drain the event queue of deliveries lazily
        }
        Ok(())
    }

    fn handle(&mut self, ev: Ev) -> Result<(), Violation> {
        match ev {
            Ev::Tick(n) => {
                let (down, stalled, period) = {
                    let nd = &self.nd[&n];
                    (nd.down, nd.stalled, nd.tick_period)
                };
                let decommissioned = self.world.nodes[&n].decommissioned;
                if decommissioned {
                    return Ok(());
                }
                self.push(period, Ev::Tick(n));
                let shielded = self.shielded(n).is_some();
                if shielded {
                    self.fault("adversary_clock_stall");
                }
                if !down && !stalled && !shielded {
                    self.act(Action::Tick { n })?;
                }
            }
            Ev::Deliver(k) => {
                if !self.world.flights.contains_key(&k) {
                    return Ok(());
                }
                let is_snap = self.world.flights.get(&k).map(|f| f.msg.get_msg_type() == MessageType::MsgSnapshot).unwrap_or(false);
                if let Some(until) = self.shielded(k.t) {
                    let is_vote_resp = self
                        .world
                        .flights
                        .get(&k)
                        .map(|f| matches!(f.msg.get_msg_type(), MessageType::MsgRequestVoteResponse | MessageType::MsgRequestPreVote))
                        .unwrap_or(false);
                    if !is_vote_resp {
                        let d = until - self.now + self.rng.range(1, 20) * MS;
                        self.push(d, Ev::Deliver(k));
                        self.fault("delayed_by_adversary");
                        return Ok(());
                    }
                }
                if let Some(until) = self.muted.get(&k.f).cloned() {
                    if until > self.now {
                        let d = until - self.now + self.rng.range(1, 20) * MS;
                        self.push(d, Ev::Deliver(k));
                        self.fault("delayed_by_adversary");
                        return Ok(());
                    }
                    self.muted.remove(&k.f);
                }
                if self.blocked.contains(&(k.f, k.t)) {
                    if self.delay_across_partition && self.rng.pm(700) {
                        let d = self.rng.range(20, 800) * MS;
                        self.push(d, Ev::Deliver(k));
                        self.fault("delayed_by_partition");
                        return Ok(());
                    }
                    self.fault("blocked_by_partition");
                    self.act(Action::Drop { k })?;
                    if is_snap {
                        let d = self.rng.range(1, 50) * MS;
                        let ok = self.rng.pm(200);
                        self.push(d, Ev::Report(k.f, k.t, ok));
                    }
                    return Ok(());
                }
                if self.rng.pm(self.drop_pm) {
                    self.act(Action::Drop { k })?;
                    if is_snap {
                        let d = self.rng.range(1, 50) * MS;
                        let ok = self.rng.pm(200);
                        self.push(d, Ev::Report(k.f, k.t, ok));
                    }
                    return Ok(());
                }
                let stalled = self.nd.get(&k.t).map(|x| x.stalled).unwrap_or(false);
                if stalled {
                    let d = self.rng.range(20, 400) * MS;
                    self.push(d, Ev::Deliver(k));
                    return Ok(());
                }
                self.act(Action::Deliver { k })?;
                if is_snap {
                    let d = self.rng.range(1, 50) * MS;
                    let ok = self.rng.pm(850);
                    self.push(d, Ev::Report(k.f, k.t, ok));
                }
            }
            Ev::Round(n) => {
                self.nd.get_mut(&n).unwrap().round_pending = false;
                if self.nd[&n].down || self.nd[&n].stalled {
                    return Ok(());
                }
                let mode = self.round_mode(n);
                let skip_fsync = self.rng.pm(self.p.skip_fsync_pm);
                self.act(Action::AppReady { n, mode, skip_fsync, force: false })?;
            }
            Ev::Fsync(n) => {
                self.nd.get_mut(&n).unwrap().fsync_pending = false;
                if self.nd[&n].down {
                    return Ok(());
                }
                let wq = self.world.nodes[&n].disk.wq.len() as u32;
                let count = if self.rng.pm(250) && wq > 1 { self.rng.range(1, wq as u64) as u32 } else { u32::MAX };
                let defer = self.defer_notify && self.rng.pm(400);
                self.act(Action::Fsync { n, count, defer })?;
                if defer {
                    let d = if self.late_notify && self.rng.pm(500) {
                        self.rng.range(50, 500) * MS
                    } else if self.rng.pm(300) {
                        self.rng.range(5, 80) * MS
                    } else {
                        self.rng.range(50, 3000)
                    };
                    self.push(d, Ev::Notify(n));
                }
                self.schedule_node_work(n);
            }
            Ev::ApplyEv(n) => {
                self.nd.get_mut(&n).unwrap().apply_pending = false;
                if self.nd[&n].down {
                    return Ok(());
                }
                let count = if self.rng.pm(300) { self.rng.range(1, 3) as u32 } else { u32::MAX };
                self.act(Action::Apply { n, count })?;
                if self.nd[&n].eager_compact && self.rng.pm(500) {
                    let back = self.rng.range(0, 2);
                    self.act(Action::Compact { n, back })?;
                }
                self.schedule_node_work(n);
            }
            Ev::ConfFollowUp(n) => {
                if !self.calm && self.world.nodes.get(&n).map(|x| x.running()).unwrap_or(false) {
                    let a = self.gen_conf_change(n);
                    self.fault("membership_change_burst");
                    self.act(a)?;
                }
            }
            Ev::Client => {
                let d = self.rng.range(self.p.client_interval.0, self.p.client_interval.1) * MS;
                self.push(d, Ev::Client);
                self.client_op()?;
                if self.rng.pm(self.p.force_ready_pm) {
                    if let Some(n) = self.random_running() {
                        let mode = self.round_mode(n);
                        self.act(Action::AppReady { n, mode, skip_fsync: false, force: true })?;
                    }
                }
            }
            Ev::Fault if self.calm => {}
            Ev::Fault => {
                if self.biased_fault_armed {
                    self.biased_fault_armed = false;
                } else {
                    let d = self.rng.range(1, 2 * self.p.fault_interval_ms) * MS;
                    self.push(d, Ev::Fault);
                }
                self.inject_fault()?;
            }
            Ev::Restart(n) => {
                self.act(Action::Restart { n })?;
                let nd = self.nd.get_mut(&n).unwrap();
                nd.down = false;
            }
            Ev::Heal => {
                self.blocked.clear();
            }
            Ev::Start(n) => {
                self.act(Action::StartNode { n })?;
                if self.world.nodes[&n].running() {
                    let period = self.nd[&n].tick_period;
                    self.push(period, Ev::Tick(n));
                }
            }
            Ev::Unstall(n) => {
                self.nd.get_mut(&n).unwrap().stalled = false;
                self.schedule_node_work(n);
            }
            Ev::Report(n, peer, ok) => {
                self.act(Action::ReportSnapshot { n, peer, ok })?;
            }
            Ev::Unreachable(n, peer) => {
                self.act(Action::ReportUnreachable { n, peer })?;
            }
            Ev::Fetched(n) => {
                self.act(Action::EntriesFetched { n })?;
            }
            Ev::ClearStorageFault(n) => {
                self.act(Action::StorageFault { n, log_unavailable: false, snap_unavailable: false })?;
                self.act(Action::EntriesFetched { n })?;
            }
            Ev::Decommission(n) => {
                self.act(Action::Decommission { n })?;
            }
            Ev::Notify(n) => {
                if self.rng.pm(400) {
                    self.act(Action::NotifyOne { n })?;
                    if self.world.nodes.get(&n).map(|x| !x.notify_queue.is_empty()).unwrap_or(false) {
                        let d = if self.rng.pm(300) { self.rng.range(5, 80) * MS } else { self.rng.range(50, 3000) };
                        self.push(d, Ev::Notify(n));
                    }
                } else {
                    self.act(Action::Notify { n })?;
                }
                self.schedule_node_work(n);
            }
        }
        Ok(())
    }
}
