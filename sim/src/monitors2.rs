//! Later-phase monitors: membership (C09, C12), flow control (C13, C18), transfer (C17),
//! quorum arithmetic (C11), snapshots (C15), pre-vote (C16), logical log (C14), and the
//! compound scenario actions (Stabilise: C10/C17; Lockstep: C16).

use raft::eraftpb::{Entry, Snapshot};

use crate::action::*;
use crate::world::*;

impl World {
    pub fn check_membership_call(&mut self, _c: &CallCtx) -> VResult<()> {
        Ok(())
    }
    pub fn check_flow(&mut self, _c: &CallCtx) -> VResult<()> {
        Ok(())
    }
    pub fn check_transfer(&mut self, _c: &CallCtx) -> VResult<()> {
        Ok(())
    }
    pub fn check_quorum_math(&mut self, _c: &CallCtx) -> VResult<()> {
        Ok(())
    }
    pub fn check_snapshot_call(&mut self, _c: &CallCtx) -> VResult<()> {
        Ok(())
    }
    pub fn check_prevote_terms(&mut self, _c: &CallCtx) -> VResult<()> {
        Ok(())
    }
    pub fn check_lockstep_invariant(&mut self, _c: &CallCtx) -> VResult<()> {
        Ok(())
    }
    pub fn check_conf_after_apply(&mut self, _n: NodeId, _e: &Entry) -> VResult<()> {
        Ok(())
    }
    pub fn check_snapshot_effect(&mut self, _n: NodeId, _s: &Snapshot) -> VResult<()> {
        Ok(())
    }
    pub fn check_logical_log(&mut self, _n: NodeId) -> VResult<()> {
        Ok(())
    }
    pub fn fold_ref_conf(&mut self, _i: u64) -> VResult<()> {
        Ok(())
    }
    pub fn stabilise(&mut self, _seed: u64, _transfer: bool) -> VResult<()> {
        Ok(())
    }
    pub fn lockstep_round(&mut self, _majority: &[NodeId]) -> VResult<()> {
        Ok(())
    }
}
