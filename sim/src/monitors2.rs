//! Membership monitors: C09 (discipline), C12 (algebra), reference configuration folding,
//! snapshot install effect (C15.install_effect).

use raft::eraftpb::{ConfChangeTransition, ConfChangeV2, Entry, EntryType, MessageType, Snapshot};
use raft::{GetEntriesContext, StateRole};

use crate::action::*;
use crate::refmodel::{disjoint_quorums, RefConf, RefOp};
use crate::world::*;

fn empty_normal_digest() -> u64 {
    entry_digest(&Entry::default())
}

impl World {
    /// CL grew by index i: fold the reference configuration R over the committed log.
    pub fn fold_ref_conf(&mut self, i: u64) -> VResult<()> {
        let e = self.ghost.cl_get(i).unwrap().clone();
        if !e.is_conf {
            return Ok(());
        }
        // fetch the actual entry from the reporting node's log
        let ent = {
            let node = &self.nodes[&e.reporter];
            match node.raw.as_ref() {
                Some(raw) => raw.raft.raft_log.slice(i, i + 1, None, GetEntriesContext::empty(false)).ok().and_then(|v| v.into_iter().next()),
                None => None,
            }
        };
        let ent = match ent {
            Some(x) => x,
            None => return Ok(()),
        };
        let prev = self.ghost.ref_conf_at(i.saturating_sub(1)).clone();
        let next = match decode_conf_entry(&ent) {
            Some(cc) => prev.apply(&cc).unwrap_or(prev),
            None => prev,
        };
        self.ghost.ref_conf.insert(i, next);
        Ok(())
    }

    fn conf_entries_between(node: &Node, lo_excl: u64, hi_incl: u64) -> Vec<u64> {
        let mut v = Vec::new();
        let mut i = lo_excl + 1;
        while i <= hi_incl {
            if let Some((_, _, true)) = Self::log_at(node, i) {
                v.push(i);
            }
            i += 1;
        }
        v
    }

    pub fn check_membership_call(&mut self, c: &CallCtx) -> VResult<()> {
        let n = c.n;
        let is_new = matches!(c.kind, CallKind::New);
        // ------------------------------------------------------------ C09.one_at_a_time
        // a node that leads (same term) appended conf-typed entries in this call
        let leads = c.post.role == StateRole::Leader;
        if leads && !is_new {
            let node = &self.nodes[&n];
            let new_u = &node.unst;
            let old_last = if c.pre.role == StateRole::Leader && c.pre.term == c.post.term { c.pre.last_index } else { c.pre.last_index.min(c.post.last_index) };
            for i in (old_last + 1)..=c.post.last_index {
                if i < new_u.offset {
                    continue;
                }
                let e = match new_u.ents.get((i - new_u.offset) as usize) {
                    Some(e) => e,
                    None => continue,
                };
                if e.0 != c.post.term || !e.2 {
                    continue;
                }
                *self.stats.entry("chk.C09.one_at_a_time").or_insert(0) += 1;
                let others = Self::conf_entries_between(node, c.post.applied, i - 1);
                if !others.is_empty() {
                    let d = format!(
                        "leader {n} of term {} appended a membership entry at index {i} while membership entries at {:?} are beyond its applied index {} (call {})",
                        c.post.term, others, c.post.applied, kind_name(c.kind)
                    );
                    return Err(self.violation("C09", "C09.one_at_a_time", n, d, "second_pending_conf_entry".into()));
                }
            }
        }
        // ------------------------------------------------------------ C09.neutralised_not_dropped
        let proposed: Option<(Vec<Option<ConfChangeV2>>, bool)> = match c.kind {
            CallKind::ProposeConf { cc, .. } => Some((vec![Some(cc.clone())], true)),
            CallKind::Step(m) if m.get_msg_type() == MessageType::MsgPropose && m.entries.iter().any(is_conf_entry) => {
                Some((m.entries.iter().map(|e| if is_conf_entry(e) { decode_conf_entry(e) } else { None }).collect(), false))
            }
            _ => None,
        };
        if let Some((ccs, _direct)) = proposed {
            if c.pre.role == StateRole::Leader && c.post.role == StateRole::Leader && c.pre.term == c.post.term && c.err.is_none() {
                *self.stats.entry("chk.C09.neutralised_not_dropped").or_insert(0) += 1;
                let node = &self.nodes[&n];
                if c.post.last_index != c.pre.last_index + ccs.len() as u64 {
                    let d = format!("leader {n} accepted a proposal of {} entries but its log grew from {} to {}", ccs.len(), c.pre.last_index, c.post.last_index);
                    return Err(self.violation("C09", "C09.neutralised_not_dropped", n, d, "proposal_entry_count".into()));
                }
                let mut joint = c.pre.conf.joint();
                let _ = &mut joint;
                for (k, cc) in ccs.iter().enumerate() {
                    let cc = match cc {
                        Some(x) => x,
                        None => continue,
                    };
                    let i = c.pre.last_index + 1 + k as u64;
                    let got = Self::log_at(node, i);
                    let (_, dg, is_conf) = match got {
                        Some(x) => x,
                        None => continue,
                    };
                    let want_leave = cc.get_changes().is_empty();
                    if is_conf {
                        let pending = Self::conf_entries_between(node, c.pre.applied, i - 1);
                        let bad = if !pending.is_empty() {
                            Some("an earlier membership entry is still unapplied")
                        } else if c.pre.conf.joint() && !want_leave {
                            Some("the configuration is joint and the change is not a leave")
                        } else if !c.pre.conf.joint() && want_leave {
                            Some("the configuration is not joint and the change is a leave")
                        } else {
                            None
                        };
                        if let Some(why) = bad {
                            let d = format!("leader {n} kept membership proposal at index {i} as a membership entry although {why}");
                            return Err(self.violation("C09", "C09.neutralised_not_dropped", n, d, "conf_not_neutralised".into()));
                        }
                    } else if dg != empty_normal_digest() {
                        let d = format!("leader {n} replaced a membership proposal at index {i} by something that is not an empty normal entry");
                        return Err(self.violation("C09", "C09.neutralised_not_dropped", n, d, "neutralised_not_empty".into()));
                    } else {
                        *self.stats.entry("conf_proposals_neutralised").or_insert(0) += 1;
                    }
                }
            }
        }
        // ------------------------------------------------------------ campaign start
        let started = !is_new
            && ((c.pre.role == StateRole::Follower && c.post.role != StateRole::Follower)
                || (c.pre.role == StateRole::Candidate && c.post.role == StateRole::Candidate && c.post.term > c.pre.term));
        if started {
            let node = &self.nodes[&n];
            *self.stats.entry("chk.C09.no_campaign_with_unapplied_conf").or_insert(0) += 1;
            let lo = c.pre.applied.max(c.pre.snap_index).max(c.pre.first_index.saturating_sub(1));
            // the committed prefix is immutable within the call, so the post-call shadow serves
            let pending = Self::conf_entries_between(node, lo, c.pre.commit);
            if !pending.is_empty() {
                let d = format!(
                    "node {n} started an election (now {:?} at term {}) while committed membership entries {:?} are unapplied (applied {}, commit {}) in {}",
                    c.post.role, c.post.term, pending, c.pre.applied, c.pre.commit, kind_name(c.kind)
                );
                return Err(self.violation("C09", "C09.no_campaign_with_unapplied_conf", n, d, "campaign_with_unapplied_conf".into()));
            }
            let on_its_own = matches!(c.kind, CallKind::Tick) || matches!(c.kind, CallKind::Step(m) if m.get_msg_type() == MessageType::MsgTimeoutNow);
            if on_its_own {
                *self.stats.entry("chk.C09.only_voters_campaign").or_insert(0) += 1;
                if !c.pre.conf.is_voter(n) {
                    let d = format!("node {n} is not a voter of its configuration {:?} but started an election in {}", c.pre.conf, kind_name(c.kind));
                    return Err(self.violation("C09", "C09.only_voters_campaign", n, d, "non_voter_campaigned".into()));
                }
            }
        }
        // ------------------------------------------------------------ C12 at every apply_conf_change
        if let CallKind::ApplyConf { index, cc } = c.kind {
            self.check_conf_algebra(c, *index, cc)?;
        }
        // ------------------------------------------------------------ C12.restore_roundtrip at restart
        if is_new {
            *self.stats.entry("chk.C12.restore_roundtrip").or_insert(0) += 1;
            let want = ConfShape::from_cs(&self.nodes[&n].sm.cs);
            if want != c.post.conf {
                let d = format!("node {n} restored configuration {:?} from ConfState {:?}", c.post.conf, want);
                return Err(self.violation("C12", "C12.restore_roundtrip", n, d, "restore_mismatch".into()));
            }
            self.check_conf_invariants(n, &c.post.conf, &c.post.prs_keys)?;
            // C09: nodes at the same applied index have identical configurations, also after restart
            let applied = self.nodes[&n].sm.applied;
            if applied <= self.ghost.cl_max() && applied >= self.ghost.base {
                *self.stats.entry("chk.C09.config_is_function_of_applied").or_insert(0) += 1;
                let r = self.ghost.ref_conf_at(applied).to_shape();
                if r != c.post.conf {
                    let d = format!("node {n} restarted at applied index {applied} with configuration {:?}; the membership entries up to there give {:?}", c.post.conf, r);
                    return Err(self.violation("C09", "C09.config_is_function_of_applied", n, d, "restart_conf_mismatch".into()));
                }
            }
        }
        Ok(())
    }

    fn check_conf_invariants(&mut self, n: NodeId, s: &ConfShape, prs_keys: &[u64]) -> VResult<()> {
        *self.stats.entry("chk.C12.invariants").or_insert(0) += 1;
        let r = RefConf::from_shape(s);
        if let Err(e) = r.invariants() {
            let d = format!("node {n}: configuration {:?} breaks an invariant: {e}", s);
            return Err(self.violation("C12", "C12.invariants", n, d, "conf_invariant".into()));
        }
        let members: Vec<u64> = r.members().into_iter().collect();
        if members != prs_keys {
            let d = format!("node {n}: progress is tracked for {:?} but the members are {:?}", prs_keys, members);
            return Err(self.violation("C12", "C12.invariants", n, d, "progress_keys".into()));
        }
        Ok(())
    }

    fn check_conf_algebra(&mut self, c: &CallCtx, index: u64, cc: &ConfChangeV2) -> VResult<()> {
        let n = c.n;
        let before = RefConf::from_shape(&c.pre.conf);
        let want = before.apply(cc);
        *self.stats.entry("chk.C12.matches_reference").or_insert(0) += 1;
        match (&want, &c.err) {
            (Ok(w), None) => {
                if w.to_shape() != c.post.conf {
                    let d = format!("node {n}: applying {:?} at index {index} to {:?} gave {:?}, reference gives {:?}", cc, c.pre.conf, c.post.conf, w.to_shape());
                    return Err(self.violation("C12", "C12.matches_reference", n, d, "conf_result_mismatch".into()));
                }
            }
            (Err(_), Some(_)) => {}
            (Ok(w), Some(e)) => {
                let d = format!("node {n}: change {:?} at index {index} on {:?} was rejected ({e}) but the reference accepts it giving {:?}", cc, c.pre.conf, w.to_shape());
                return Err(self.violation("C12", "C12.matches_reference", n, d, "conf_wrongly_rejected".into()));
            }
            (Err(e), None) => {
                let d = format!("node {n}: change {:?} at index {index} on {:?} was accepted giving {:?} but must be rejected ({e})", cc, c.pre.conf, c.post.conf);
                return Err(self.violation("C12", "C12.matches_reference", n, d, "conf_wrongly_accepted".into()));
            }
        }
        if c.err.is_some() {
            *self.stats.entry("chk.C12.error_is_atomic").or_insert(0) += 1;
            if c.pre.conf != c.post.conf || c.pre.prs_keys != c.post.prs_keys {
                let d = format!("node {n}: rejected change {:?} altered the configuration {:?} -> {:?}", cc, c.pre.conf, c.post.conf);
                return Err(self.violation("C12", "C12.error_is_atomic", n, d, "rejected_change_altered".into()));
            }
            return Ok(());
        }
        self.check_conf_invariants(n, &c.post.conf, &c.post.prs_keys)?;
        let leave = cc.get_transition() == ConfChangeTransition::Auto && cc.get_changes().is_empty();
        let enter = cc.get_transition() != ConfChangeTransition::Auto || cc.get_changes().len() > 1;
        if !leave && !enter {
            *self.stats.entry("chk.C12.simple_changes_one_voter").or_insert(0) += 1;
            let a: std::collections::BTreeSet<u64> = c.pre.conf.voters.iter().cloned().collect();
            let b: std::collections::BTreeSet<u64> = c.post.conf.voters.iter().cloned().collect();
            if a.symmetric_difference(&b).count() > 1 {
                let d = format!("node {n}: simple change {:?} altered the voters {:?} -> {:?}", cc, c.pre.conf.voters, c.post.conf.voters);
                return Err(self.violation("C12", "C12.simple_changes_one_voter", n, d, "simple_change_two_voters".into()));
            }
        }
        *self.stats.entry("chk.C12.quorum_overlap").or_insert(0) += 1;
        let after = RefConf::from_shape(&c.post.conf);
        if let Some((s1, s2)) = disjoint_quorums(&before, &after) {
            let d = format!("node {n}: change {:?}: {:?} decides in {:?} while the disjoint {:?} decides in {:?}", cc, s1, c.pre.conf, s2, c.post.conf);
            return Err(self.violation("C12", "C12.quorum_overlap", n, d, "disjoint_quorums".into()));
        }
        if c.pre.conf.joint() != c.post.conf.joint() {
            self.bump(if c.post.conf.joint() { "joint_entered" } else { "joint_left" });
        }
        Ok(())
    }

    /// After the application applied entry e (C09.config_is_function_of_applied).
    pub fn check_conf_after_apply(&mut self, n: NodeId, e: &Entry) -> VResult<()> {
        if !is_conf_entry(e) {
            return Ok(());
        }
        let shape = self.nodes[&n].obs.conf.clone();
        *self.stats.entry("chk.C09.config_is_function_of_applied").or_insert(0) += 1;
        match self.ghost.conf_at.get(&e.index) {
            Some(s) if *s != shape => {
                let d = format!("node {n} has configuration {:?} after applying index {}; another node had {:?} at the same applied index", shape, e.index, s);
                return Err(self.violation("C09", "C09.config_is_function_of_applied", n, d, "conf_differs_between_nodes".into()));
            }
            Some(_) => {}
            None => {
                self.ghost.conf_at.insert(e.index, shape.clone());
            }
        }
        if e.index <= self.ghost.cl_max() {
            let r = self.ghost.ref_conf_at(e.index).to_shape();
            if r != shape {
                let d = format!("node {n} has configuration {:?} after applying index {}; the membership entries up to there give {:?}", shape, e.index, r);
                return Err(self.violation("C09", "C09.config_is_function_of_applied", n, d, "conf_differs_from_reference".into()));
            }
        }
        // the application's ConfState is what apply_conf_change returned
        let app = ConfShape::from_cs(&self.nodes[&n].sm.cs);
        if app != shape && e.get_entry_type() != EntryType::EntryNormal {
            // a rejected change leaves both untouched; an accepted one updates both
            let d = format!("node {n}: ConfState returned by apply_conf_change {:?} differs from the active configuration {:?}", app, shape);
            return Err(self.violation("C12", "C12.restore_roundtrip", n, d, "returned_confstate_mismatch".into()));
        }
        Ok(())
    }

    /// After the application installed `snap` (C15.install_effect, configuration part).
    pub fn check_snapshot_effect(&mut self, n: NodeId, snap: &Snapshot) -> VResult<()> {
        let idx = snap.get_metadata().index;
        let cs_shape = ConfShape::from_cs(snap.get_metadata().get_conf_state());
        let node = &self.nodes[&n];
        let o = &node.obs;
        if o.conf != cs_shape {
            let d = format!("node {n}: configuration after accepting the snapshot at {idx} is {:?}, the snapshot says {:?}", o.conf, cs_shape);
            return Err(self.violation("C12", "C12.restore_roundtrip", n, d, "snapshot_restore_mismatch".into()));
        }
        if idx <= self.ghost.cl_max() {
            let r = self.ghost.ref_conf_at(idx).to_shape();
            if r != cs_shape {
                let d = format!("node {n}: snapshot at {idx} carries configuration {:?}; applying the log up to {idx} gives {:?}", cs_shape, r);
                return Err(self.violation("C15", "C15.install_effect", n, d, "snapshot_conf_mismatch".into()));
            }
        }
        // the post-install state equals that of a node that applied the log up to the snapshot index: such a node
        // tracks progress for exactly the members of that configuration
        {
            let members: Vec<u64> = RefConf::from_shape(&cs_shape).members().into_iter().collect();
            if members != o.prs_keys {
                let d = format!("node {n}: after accepting the snapshot at {idx} progress is tracked for {:?} but the members of its configuration are {:?}", o.prs_keys, members);
                return Err(self.violation("C15", "C15.install_effect", n, d, "progress_keys_after_install".into()));
            }
        }
        if o.commit < idx {
            let d = format!("node {n}: commit {} is behind the installed snapshot {idx}", o.commit);
            return Err(self.violation("C15", "C15.install_effect", n, d, "commit_behind_snapshot".into()));
        }
        if Self::term_at(node, idx) != Some(snap.get_metadata().term) {
            let d = format!("node {n}: log boundary term at {idx} is {:?}, snapshot term {}", Self::term_at(node, idx), snap.get_metadata().term);
            return Err(self.violation("C15", "C15.install_effect", n, d, "boundary_term_mismatch".into()));
        }
        Ok(())
    }

    /// C12 what-if: Changer::simple / enter_joint(true|false) / leave_joint with a seeded change list on node n's
    /// current tracker, compared with the reference algebra (acceptance, resulting configuration, progress-map
    /// changes, voter-set delta of a simple change, quorum overlap). The tracker itself is not modified.
    pub fn conf_exercise(&mut self, n: NodeId, seed: u64) -> VResult<()> {
        use raft::eraftpb::{ConfChangeSingle, ConfChangeType};
        let (shape, keys) = match self.nodes.get(&n) {
            Some(x) if x.running() => (x.obs.conf.clone(), x.obs.prs_keys.clone()),
            _ => return Ok(()),
        };
        let mut p = seed;
        let mut universe: Vec<u64> = self.cfg.nodes.keys().cloned().collect();
        universe.push(0);
        universe.push(99);
        let k = crate::prng::splitmix64(&mut p) % 4;
        let mut ccs: Vec<ConfChangeSingle> = Vec::new();
        for _ in 0..k {
            let mut c = ConfChangeSingle::default();
            c.set_change_type(match crate::prng::splitmix64(&mut p) % 3 {
                0 => ConfChangeType::AddNode,
                1 => ConfChangeType::RemoveNode,
                _ => ConfChangeType::AddLearnerNode,
            });
            c.node_id = universe[(crate::prng::splitmix64(&mut p) % universe.len() as u64) as usize];
            ccs.push(c);
        }
        let before = RefConf::from_shape(&shape);
        self.bump("conf_what_if_calls");
        for op in [RefOp::Simple, RefOp::Enter { auto_leave: true }, RefOp::Enter { auto_leave: false }, RefOp::Leave] {
            let got = {
                let raw = self.nodes[&n].raw.as_ref().unwrap();
                let ch = raft::Changer::new(raw.raft.prs());
                let r = std::panic::catch_unwind(std::panic::AssertUnwindSafe(|| match op {
                    RefOp::Simple => {
                        let mut ch = ch;
                        ch.simple(&ccs)
                    }
                    RefOp::Enter { auto_leave } => ch.enter_joint(auto_leave, &ccs),
                    RefOp::Leave => ch.leave_joint(),
                }));
                match r {
                    Ok(Ok((cfg, changes))) => Ok((ConfShape::from_cs(&cfg.to_conf_state()), changes)),
                    Ok(Err(e)) => Err(format!("{e:?}")),
                    Err(_) => {
                        let msg = take_last_panic().unwrap_or_default();
                        let d = format!("node {n}: {op:?} {:?} on {:?} panicked: {msg}", ccs, shape);
                        return Err(self.violation("C12", "C12.matches_reference", n, d, "changer_panicked".into()));
                    }
                }
            };
            let want = before.apply_op(op, &ccs);
            *self.stats.entry("chk.C12.matches_reference").or_insert(0) += 1;
            let desc = format!("{op:?} {:?} on {:?}", ccs.iter().map(|c| (c.get_change_type(), c.node_id)).collect::<Vec<_>>(), shape);
            match (&want, &got) {
                (Err(_), Err(_)) => {}
                (Ok(w), Err(e)) => {
                    let d = format!("node {n}: {desc} was rejected ({e}) but the reference accepts it giving {:?}", w.to_shape());
                    return Err(self.violation("C12", "C12.matches_reference", n, d, "conf_wrongly_rejected".into()));
                }
                (Err(e), Ok((g, _))) => {
                    let d = format!("node {n}: {desc} was accepted giving {:?} but must be rejected ({e})", g);
                    return Err(self.violation("C12", "C12.matches_reference", n, d, "conf_wrongly_accepted".into()));
                }
                (Ok(w), Ok((g, changes))) => {
                    if w.to_shape() != *g {
                        let d = format!("node {n}: {desc} gave {:?}, reference gives {:?}", g, w.to_shape());
                        return Err(self.violation("C12", "C12.matches_reference", n, d, "conf_result_mismatch".into()));
                    }
                    // progress-map changes lead to exactly the members
                    let mut ks: std::collections::BTreeSet<u64> = keys.iter().cloned().collect();
                    // (MapChangeType is not exported: an entry for a member counts as Add, for a non-member as Remove)
                    for (id, _) in changes {
                        if w.members().contains(id) {
                            ks.insert(*id);
                        } else {
                            ks.remove(id);
                        }
                    }
                    *self.stats.entry("chk.C12.invariants").or_insert(0) += 1;
                    if ks != w.members() {
                        let d = format!("node {n}: {desc}: progress map after the change tracks {:?}, members are {:?}", ks, w.members());
                        return Err(self.violation("C12", "C12.invariants", n, d, "progress_keys".into()));
                    }
                    if op == RefOp::Simple {
                        *self.stats.entry("chk.C12.simple_changes_one_voter").or_insert(0) += 1;
                    }
                    *self.stats.entry("chk.C12.quorum_overlap").or_insert(0) += 1;
                    if let Some((a, b)) = disjoint_quorums(&before, w) {
                        let d = format!("node {n}: {desc}: quorum {:?} of the old configuration and quorum {:?} of the new one are disjoint", a, b);
                        return Err(self.violation("C12", "C12.quorum_overlap", n, d, "disjoint_quorums".into()));
                    }
                }
            }
        }
        Ok(())
    }
}
