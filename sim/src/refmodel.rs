//! Small executable reference models used as oracles: configuration algebra R, quorum
//! arithmetic. Written from the behavioural statements, independent of the library code.

use std::collections::BTreeSet;

use raft::eraftpb::{ConfChangeSingle, ConfChangeTransition, ConfChangeType, ConfChangeV2};

/// The three operations of the configuration algebra.
#[derive(Clone, Copy, Debug, PartialEq, Eq)]
pub enum RefOp {
    Simple,
    Enter { auto_leave: bool },
    Leave,
}

use crate::world::ConfShape;

#[derive(Clone, Debug, PartialEq, Eq, Default)]
pub struct RefConf {
    pub voters: BTreeSet<u64>,
    pub outgoing: BTreeSet<u64>,
    pub learners: BTreeSet<u64>,
    pub learners_next: BTreeSet<u64>,
    pub auto_leave: bool,
}

impl RefConf {
    pub fn from_shape(s: &ConfShape) -> RefConf {
        RefConf {
            voters: s.voters.iter().cloned().collect(),
            outgoing: s.outgoing.iter().cloned().collect(),
            learners: s.learners.iter().cloned().collect(),
            learners_next: s.learners_next.iter().cloned().collect(),
            auto_leave: s.auto_leave,
        }
    }
    pub fn to_shape(&self) -> ConfShape {
        ConfShape {
            voters: self.voters.iter().cloned().collect(),
            outgoing: self.outgoing.iter().cloned().collect(),
            learners: self.learners.iter().cloned().collect(),
            learners_next: self.learners_next.iter().cloned().collect(),
            auto_leave: self.auto_leave,
        }
    }
    pub fn joint(&self) -> bool {
        !self.outgoing.is_empty()
    }
    pub fn members(&self) -> BTreeSet<u64> {
        let mut s = self.voters.clone();
        s.extend(self.outgoing.iter());
        s.extend(self.learners.iter());
        s.extend(self.learners_next.iter());
        s
    }

    fn apply_changes(&mut self, ccs: &[ConfChangeSingle]) -> Result<(), String> {
        for c in ccs {
            let id = c.node_id;
            if id == 0 {
                continue;
            }
            let member = self.members().contains(&id);
            match c.get_change_type() {
                ConfChangeType::AddNode => {
                    self.voters.insert(id);
                    self.learners.remove(&id);
                    self.learners_next.remove(&id);
                }
                ConfChangeType::AddLearnerNode => {
                    if self.learners.contains(&id) {
                        continue;
                    }
                    self.voters.remove(&id);
                    self.learners_next.remove(&id);
                    if self.outgoing.contains(&id) {
                        self.learners_next.insert(id);
                    } else {
                        self.learners.insert(id);
                    }
                }
                ConfChangeType::RemoveNode => {
                    if !member {
                        continue;
                    }
                    self.voters.remove(&id);
                    self.learners.remove(&id);
                    self.learners_next.remove(&id);
                }
            }
        }
        if self.voters.is_empty() {
            return Err("removed all voters".into());
        }
        Ok(())
    }

    pub fn invariants(&self) -> Result<(), String> {
        for l in &self.learners {
            if self.voters.contains(l) || self.outgoing.contains(l) {
                return Err(format!("{l} is both learner and voter"));
            }
        }
        for l in &self.learners_next {
            if !self.outgoing.contains(l) {
                return Err(format!("staged learner {l} is not an outgoing voter"));
            }
            if self.learners.contains(l) {
                return Err(format!("{l} is both learner and staged learner"));
            }
        }
        if self.voters.is_empty() {
            return Err("no voter".into());
        }
        if !self.joint() {
            if !self.learners_next.is_empty() {
                return Err("staged learners outside a joint config".into());
            }
            if self.auto_leave {
                return Err("auto_leave outside a joint config".into());
            }
        }
        Ok(())
    }

    /// The configuration after applying `cc`, or Err if the change must be rejected.
    pub fn apply(&self, cc: &ConfChangeV2) -> Result<RefConf, String> {
        let leave = cc.get_transition() == ConfChangeTransition::Auto && cc.get_changes().is_empty();
        let enter = cc.get_transition() != ConfChangeTransition::Auto || cc.get_changes().len() > 1;
        let op = if leave {
            RefOp::Leave
        } else if enter {
            RefOp::Enter { auto_leave: cc.get_transition() != ConfChangeTransition::Explicit }
        } else {
            RefOp::Simple
        };
        self.apply_op(op, cc.get_changes())
    }

    /// One operation of the algebra applied to an arbitrary change list (Changer::simple / enter_joint / leave_joint).
    pub fn apply_op(&self, op: RefOp, ccs: &[ConfChangeSingle]) -> Result<RefConf, String> {
        let mut n = self.clone();
        match op {
            RefOp::Leave => {
                if !self.joint() {
                    return Err("leave while not joint".into());
                }
                let staged: Vec<u64> = n.learners_next.iter().cloned().collect();
                n.learners.extend(staged);
                n.learners_next.clear();
                n.outgoing.clear();
                n.auto_leave = false;
            }
            RefOp::Enter { auto_leave } => {
                if self.joint() {
                    return Err("already joint".into());
                }
                if self.voters.is_empty() {
                    return Err("zero-voter config".into());
                }
                n.outgoing = n.voters.clone();
                n.apply_changes(ccs)?;
                n.auto_leave = auto_leave;
            }
            RefOp::Simple => {
                if self.joint() {
                    return Err("simple change while joint".into());
                }
                n.apply_changes(ccs)?;
                if n.voters.symmetric_difference(&self.voters).count() > 1 {
                    return Err("more than one voter changed".into());
                }
            }
        }
        n.invariants()?;
        Ok(n)
    }

    /// Is `s` a deciding quorum (majority of every non-empty voter set)?
    pub fn is_quorum(&self, s: &BTreeSet<u64>) -> bool {
        let half = |v: &BTreeSet<u64>| -> bool {
            if v.is_empty() {
                return true;
            }
            v.iter().filter(|x| s.contains(x)).count() >= v.len() / 2 + 1
        };
        half(&self.voters) && half(&self.outgoing)
    }
}

/// Brute force: is there a set S that is a quorum of `a` while its complement is a quorum of `b`?
/// (Then two disjoint deciding quorums exist across the change.) Universe <= ~12 ids.
pub fn disjoint_quorums(a: &RefConf, b: &RefConf) -> Option<(BTreeSet<u64>, BTreeSet<u64>)> {
    let mut uni: BTreeSet<u64> = a.voters.clone();
    uni.extend(a.outgoing.iter());
    uni.extend(b.voters.iter());
    uni.extend(b.outgoing.iter());
    let ids: Vec<u64> = uni.into_iter().collect();
    if ids.len() > 16 {
        return None;
    }
    for mask in 0u32..(1u32 << ids.len()) {
        let s: BTreeSet<u64> = ids.iter().enumerate().filter(|(i, _)| mask & (1 << i) != 0).map(|(_, x)| *x).collect();
        if !a.is_quorum(&s) {
            continue;
        }
        let c: BTreeSet<u64> = ids.iter().filter(|x| !s.contains(x)).cloned().collect();
        if b.is_quorum(&c) {
            return Some((s, c));
        }
    }
    None
}

// ---------------------------------------------------------------------------------------
// quorum arithmetic
// ---------------------------------------------------------------------------------------

/// Largest index acknowledged by a majority of `voters` (u64::MAX for an empty set).
pub fn majority_index(voters: &[u64], matched: &dyn Fn(u64) -> u64) -> u64 {
    if voters.is_empty() {
        return u64::MAX;
    }
    let mut m: Vec<u64> = voters.iter().map(|v| matched(*v)).collect();
    m.sort_unstable();
    // the (n/2+1)-th largest
    let q = voters.len() / 2 + 1;
    m[voters.len() - q]
}

pub fn joint_index(incoming: &[u64], outgoing: &[u64], matched: &dyn Fn(u64) -> u64) -> u64 {
    majority_index(incoming, matched).min(majority_index(outgoing, matched))
}

/// Group-commit reference for one half: when every voter has a non-zero group and at least two
/// distinct groups exist, the largest index <= quorum index reached by voters of >= 2 groups.
/// Returns None when the precondition does not hold (then only "<= quorum index" is demanded).
pub fn group_commit_index(voters: &[u64], matched: &dyn Fn(u64) -> u64, group: &dyn Fn(u64) -> u64) -> Option<u64> {
    if voters.is_empty() {
        return Some(u64::MAX);
    }
    if voters.iter().any(|v| group(*v) == 0) {
        return None;
    }
    let groups: BTreeSet<u64> = voters.iter().map(|v| group(*v)).collect();
    if groups.len() < 2 {
        return None;
    }
    let q = majority_index(voters, matched);
    // candidate indexes: all matched values <= q (and q itself)
    let mut best = 0u64;
    let mut cands: Vec<u64> = voters.iter().map(|v| matched(*v).min(q)).collect();
    cands.push(q);
    for c in cands {
        let gs: BTreeSet<u64> = voters.iter().filter(|v| matched(**v) >= c).map(|v| group(*v)).collect();
        if gs.len() >= 2 && c > best {
            best = c;
        }
    }
    Some(best)
}

#[derive(Clone, Copy, Debug, PartialEq, Eq)]
pub enum RefVote {
    Won,
    Lost,
    Pending,
}

pub fn vote_half(voters: &[u64], vote: &dyn Fn(u64) -> Option<bool>) -> RefVote {
    if voters.is_empty() {
        return RefVote::Won;
    }
    let q = voters.len() / 2 + 1;
    let yes = voters.iter().filter(|v| vote(**v) == Some(true)).count();
    let missing = voters.iter().filter(|v| vote(**v).is_none()).count();
    if yes >= q {
        RefVote::Won
    } else if yes + missing < q {
        RefVote::Lost
    } else {
        RefVote::Pending
    }
}

pub fn vote_joint(incoming: &[u64], outgoing: &[u64], vote: &dyn Fn(u64) -> Option<bool>) -> RefVote {
    let a = vote_half(incoming, vote);
    let b = vote_half(outgoing, vote);
    if a == RefVote::Lost || b == RefVote::Lost {
        RefVote::Lost
    } else if a == RefVote::Won && b == RefVote::Won {
        RefVote::Won
    } else {
        RefVote::Pending
    }
}
