//! Per-property profiles (swarm weights) and non-triviality rules.

use std::collections::BTreeMap;

use crate::driver::Profile;

pub type Stats = BTreeMap<&'static str, u64>;

pub struct Spec {
    pub profile: Profile,
    pub quick_runs: u64,
    pub thorough_runs: u64,
    pub nontrivial: fn(&Stats, &Stats) -> bool,
    pub rule: &'static str,
}

fn g(s: &Stats, k: &str) -> u64 {
    s.get(k).cloned().unwrap_or(0)
}

pub fn spec(id: &str) -> Spec {
    let general = Profile::general();
    match id {
        _ => Spec {
            profile: general,
            quick_runs: 3000,
            thorough_runs: 60000,
            nontrivial: |s, _f| g(s, "leaders_elected") >= 2 && g(s, "commits") >= 1,
            rule: ">= 2 leaders elected and >= 1 entry committed in the run",
        },
    }
}
