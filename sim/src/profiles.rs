//! Per-property profiles (swarm weights) and non-triviality rules.

use std::collections::BTreeMap;

use crate::driver::Profile;

pub type Stats = BTreeMap<&'static str, u64>;

pub struct Spec {
    pub profile: Profile,
    pub quick_runs: u64,
    pub thorough_runs: u64,
    pub nontrivial: fn(&Stats, &Stats) -> bool,
    pub rule: &'static str,
}

fn g(s: &Stats, k: &str) -> u64 {
    s.get(k).cloned().unwrap_or(0)
}

/// Workload families the broad safety properties (C01, C03, C05, C20) rotate through in every second run.
fn families() -> Vec<Profile> {
    ["C02", "C04", "C08", "C09", "C13", "C14", "C15", "C17"].iter().map(|id| spec(id).profile).collect()
}

pub fn spec(id: &str) -> Spec {
    let mut p = Profile::general();
    let (quick, thorough): (u64, u64) = (40_000, 600_000);
    match id {
        "C02" => {
            p.name = "election";
            p.voters = (3, 7);
            p.election_tick = (3, 6);
            p.slow_msg_pm = 150;
            p.fault_interval_ms = 200;
            p.w_crash = 8;
            p.w_partition = 8;
            p.w_clock = 4;
            p.w_transfer = 6;
            p.w_conf = 10;
            p.priority_pm = 300;
            p.election_adversary_pm = 500;
            p.conf_heavy_pm = 600;
            Spec { profile: p, quick_runs: 60_000, thorough_runs: thorough, nontrivial: |s, _| g(s, "leaders_elected") >= 3,
                rule: ">= 3 leaders elected (distinct terms) in the run" }
        }
        "C03" => {
            p.name = "general / all families";
            p.mix = families();
            Spec { profile: p, quick_runs: quick, thorough_runs: thorough,
                nontrivial: |s, _| g(s, "leaders_elected") >= 2 && g(s, "commits") >= 2 && g(s, "chk.C03.grant_up_to_date") >= 1,
                rule: ">= 2 leaders, >= 2 commits and >= 1 granted (pre-)vote checked" }
        }
        "C04" | "C06" | "C07" => {
            p.name = "durability";
            p.voters = (1, 5);
            p.single_voter_pm = 250;
            p.async_pm = 600;
            p.lazy_pm = 200;
            p.mix_modes_pm = 500;
            p.fault_interval_ms = 150;
            p.w_crash = 10;
            p.w_partition = 8;
            p.run_len = (300, 1500);
            p.fsync_delay_ms = (1, 200);
            p.slow_disk_pm = 250;
            p.w_bogus = 6;
            p.slow_round_pm = 300;
            p.voters = (1, 4);
            p.paginate_pm = 500;
            p.apply_unpersisted_pm = 300;
            p.force_ready_pm = 60;
            p.w_conf = 3;
            let nt: fn(&Stats, &Stats) -> bool = match id {
                "C04" => |s, _| g(s, "chk.C04.leader_commit_quorum_durable") >= 3 && g(s, "rounds_async") >= 1,
                "C06" => |s, _| g(s, "crashes_losing_writes") >= 1 && g(s, "restarts") >= 1,
                _ => |s, _| g(s, "ready_rounds") >= 20 && (g(s, "rounds_async") >= 1 || g(s, "restarts") >= 1) && g(s, "entries_applied") >= 5,
            };
            let rule = match id {
                "C04" => ">= 3 leader commit advances checked against durable images and >= 1 asynchronous Ready round",
                "C06" => ">= 1 crash that lost un-fsynced writes followed by a restart",
                _ => ">= 20 Ready rounds with >= 1 async round or restart and >= 5 applied entries",
            };
            Spec { profile: p, quick_runs: 100_000, thorough_runs: thorough, nontrivial: nt, rule }
        }
        "C08" => {
            p.name = "reads";
            p.voters = (2, 5);
            p.w_read = 45;
            p.w_partition = 10;
            p.fault_interval_ms = 250;
            p.lease_read_pm = 0;
            p.w_conf = 10;
            Spec { profile: p, quick_runs: quick, thorough_runs: thorough,
                nontrivial: |s, _| g(s, "reads_answered") >= 1 && g(s, "leaders_elected") >= 2,
                rule: ">= 1 read answered in a run with >= 2 leaders" }
        }
        "C09" | "C12" => {
            p.name = "membership";
            p.voters = (2, 5);
            p.spare_max = 4;
            p.w_conf = 45;
            p.illegal_conf_pm = 350;
            p.conf_exercise_pm = 500;
            p.run_len = (800, 3500);
            p.lazy_pm = 350;
            p.slow_round_pm = 200;
            Spec { profile: p, quick_runs: quick, thorough_runs: thorough,
                nontrivial: |s, _| g(s, "conf_changes_applied") >= 3 && (g(s, "joint_entered") >= 1 || g(s, "conf_changes_rejected_at_apply") >= 1 || g(s, "conf_proposals_neutralised") >= 1),
                rule: ">= 3 membership changes applied and >= 1 joint configuration entered, change rejected at apply, or proposal neutralised" }
        }
        "S3" => {
            // hunting profile for the stale-configuration election of DESIGN 12.1 (not a registered check)
            p.name = "s3-hunt";
            p.voters = (3, 3);
            p.learners_max = 0;
            p.spare_max = 3;
            p.single_voter_pm = 0;
            p.w_conf = 50;
            p.illegal_conf_pm = 0;
            p.skip_fsync_pm = 900;
            p.async_pm = 400;
            p.lazy_pm = 400;
            p.slow_round_pm = 300;
            p.fault_interval_ms = 150;
            p.w_crash = 12;
            p.w_partition = 10;
            p.election_tick = (4, 8);
            p.run_len = (800, 3000);
            Spec { profile: p, quick_runs: quick, thorough_runs: thorough, nontrivial: |s, _| g(s, "conf_changes_applied") >= 2, rule: "hunt" }
        }
        "C10" => {
            p.name = "liveness";
            p.stabilise_pm = 1000;
            p.run_len = (200, 1500);
            Spec { profile: p, quick_runs: 15_000, thorough_runs: 250_000,
                nontrivial: |s, f| g(s, "chk.C10.converges") >= 1 && (g(f, "crash") + g(f, "crash_losing_unfsynced_writes") + g(f, "partition") + g(f, "message_loss")) >= 1,
                rule: "fair suffix evaluated after a prefix with >= 1 crash, partition or message loss" }
        }
        "C11" => {
            p.name = "quorum";
            p.voters = (1, 9);
            p.spare_max = 3;
            p.group_commit_pm = 600;
            p.w_conf = 25;
            p.w_knob = 12;
            p.illegal_conf_pm = 100;
            Spec { profile: p, quick_runs: quick, thorough_runs: thorough,
                nontrivial: |s, _| g(s, "chk.C11.commit_index_exact") >= 50 && g(s, "chk.C11.vote_result_exact") >= 1,
                rule: ">= 50 leader commit-index computations and >= 1 vote tally compared with the reference" }
        }
        "C13" | "C18" => {
            p.name = "flow";
            p.voters = (2, 5);
            p.small_inflight_pm = 900;
            p.small_msg_pm = 800;
            p.small_uncommitted_pm = 500;
            p.batch_append_pm = if id == "C13" { 300 } else { 200 };
            p.w_knob = 25;
            p.w_propose = 120;
            p.client_interval = (1, 8);
            p.drop_pm = 80;
            p.dup_pm = 80;
            p.w_crash = 2;
            Spec { profile: p, quick_runs: quick, thorough_runs: thorough,
                nontrivial: |s, _| g(s, "window_full_seen") >= 1 && g(s, "small_window_nonempty") >= 10,
                rule: "a full in-flight window was observed and a small window was non-empty >= 10 times" }
        }
        "C14" | "C19" => {
            p.name = "log";
            p.voters = (3, 5);
            p.w_compact = 25;
            p.w_partition = 8;
            p.w_storage_fault = 8;
            p.async_pm = 500;
            p.storage_exercise_pm = 500;
            Spec { profile: p, quick_runs: quick, thorough_runs: thorough,
                nontrivial: |s, _| g(s, "compactions") >= 2 && g(s, "leaders_elected") >= 2,
                rule: ">= 2 compactions and >= 2 leaders (conflicting tails) in the run" }
        }
        "C15" => {
            p.name = "snapshot";
            p.voters = (3, 5);
            p.w_compact = 35;
            p.w_reqsnap = 8;
            p.w_conf = 12;
            p.w_crash = 8;
            p.fault_interval_ms = 250;
            Spec { profile: p, quick_runs: quick, thorough_runs: thorough,
                nontrivial: |s, _| g(s, "snapshots_installed") >= 1,
                rule: ">= 1 snapshot installed by some node" }
        }
        "C16" => {
            p.name = "nondisruption";
            p.voters = (3, 7);
            p.pre_vote_pm = 1000;
            p.check_quorum_pm = 1000;
            p.hetero_pm = 0;
            p.lease_read_pm = 0;
            p.w_transfer = 0;
            p.w_conf = 10; // only before the calm phase
            p.single_voter_pm = 0;
            p.lockstep = true;
            p.run_len = (300, 900);
            Spec { profile: p, quick_runs: 25_000, thorough_runs: 400_000,
                nontrivial: |s, _| g(s, "lockstep_rounds") >= 20 && g(s, "chk.C16.stable_majority_undisturbed") >= 50,
                rule: "lock-step phase established and >= 20 lock-step rounds ran against an adversarial minority" }
        }
        "C17" => {
            p.name = "transfer";
            p.voters = (3, 5);
            p.w_transfer = 30;
            p.w_conf = 10;
            p.stabilise_pm = 400;
            p.transfer_in_suffix_pm = 1000;
            Spec { profile: p, quick_runs: quick, thorough_runs: thorough,
                nontrivial: |s, _| g(s, "transfers_started") >= 1 && (g(s, "timeout_now_sent") >= 1 || g(s, "transfer_aborted_by_timeout") >= 1),
                rule: ">= 1 transfer started and >= 1 MsgTimeoutNow sent or transfer aborted by timeout" }
        }
        "C20" => {
            p.name = "general+bogus / all families";
            p.w_bogus = 8;
            p.mix = families();
            Spec { profile: p, quick_runs: quick, thorough_runs: thorough,
                nontrivial: |s, _| g(s, "leaders_elected") >= 2 && g(s, "commits") >= 1 && g(s, "restarts") >= 1,
                rule: ">= 2 leaders, >= 1 commit and >= 1 restart in the run" }
        }
        _ => Spec {
            profile: {
                if matches!(id, "C01" | "C05") {
                    p.name = "general / all families";
                    p.mix = families();
                }
                p
            },
            quick_runs: quick,
            thorough_runs: thorough,
            nontrivial: |s, _f| g(s, "leaders_elected") >= 2 && g(s, "commits") >= 1,
            rule: ">= 2 leaders elected and >= 1 entry committed in the run",
        },
    }
}
