//! Monitors: one-sided oracles stated at the level of the properties, evaluated after every
//! library call (per-call), at every Ready hand-off, at every message release, after every
//! storage mutation, and (full re-check) every 256 actions.

use std::collections::BTreeSet;

use raft::eraftpb::{Entry, Message, MessageType, Snapshot};
use raft::{LightReady, ReadState, Ready, StateRole};

use crate::action::*;
use crate::ghost::{ClEnt, ReadReq};
use crate::refmodel::{self, RefConf, RefVote};
use crate::world::*;

pub struct LockstepState {
    pub leader: NodeId,
    pub term: u64,
    pub majority: Vec<NodeId>,
    pub rounds: u64,
    /// granted pre-votes that were already in flight when the lock-step phase began
    pub old_grants: Vec<MsgKey>,
    /// one of them was delivered during the phase (history precondition of a known finding)
    pub stale_grant_delivered: bool,
    /// the leader's configuration when the phase began (a membership change ends the scenario)
    pub conf: ConfShape,
}

fn is_vote_req(t: MessageType) -> bool {
    matches!(t, MessageType::MsgRequestVote | MessageType::MsgRequestPreVote)
}

fn leader_type(t: MessageType) -> bool {
    matches!(
        t,
        MessageType::MsgAppend
            | MessageType::MsgHeartbeat
            | MessageType::MsgSnapshot
            | MessageType::MsgTimeoutNow
            | MessageType::MsgReadIndexResp
    )
}

impl World {
    /// Focus mode (used by `check <ID>`): a firing of another property's monitor does not end
    /// the run; it is counted and the run goes on, so that the consequences for the property in
    /// focus are still observed. Harness self-check failures and panics always end the run.
    pub fn gate(&mut self, r: VResult<()>) -> VResult<()> {
        match r {
            Err(v) => {
                if let Some(f) = self.focus {
                    if v.prop != f && v.prop != "HARNESS" && v.check != "C20.no_panic" {
                        *self.suppressed.entry(v.check).or_insert(0) += 1;
                        return Ok(());
                    }
                }
                Err(v)
            }
            ok => ok,
        }
    }

    // ====================================================================================
    // per-call monitors
    // ====================================================================================

    pub fn after_call(&mut self, c: &CallCtx) -> VResult<()> {
        let n = c.n;
        let is_new = matches!(c.kind, CallKind::New);

        *self.stats.entry("chk.C20.no_panic").or_insert(0) += 1;
        // ---------------- C06.term_monotone
        if !is_new {
            *self.stats.entry("chk.C06.term_monotone").or_insert(0) += 1;
        }
        if !is_new && c.post.term < c.pre.term {
            let d = format!("node {n}: term went from {} to {} in {}", c.pre.term, c.post.term, kind_name(c.kind));
            let v = self.violation("C06", "C06.term_monotone", n, d, "term_decreased".into());
            self.gate(Err(v))?;
        }

        // ---------------- C02.one_leader_per_term
        if c.post.role == StateRole::Leader {
            *self.stats.entry("chk.C02.one_leader_per_term").or_insert(0) += 1;
            match self.ghost.leader_of.get(&c.post.term) {
                Some(l) if *l != n => {
                    let d = format!("nodes {} and {} are both leader of term {}", l, n, c.post.term);
                    let sig = "two_leaders".to_string();
                    let v = self.violation("C02", "C02.one_leader_per_term", n, d, sig);
                    self.gate(Err(v))?;
                }
                Some(_) => {}
                None => {
                    self.ghost.leader_of.insert(c.post.term, n);
                    self.bump("leaders_elected");
                    if c.pre.persisted < c.pre.last_index {
                        self.bump("leader_elected_with_unreported_tail");
                    }
                    {
                        let node = &self.nodes[&n];
                        let mut cnt = 0;
                        let mut i = node.obs.applied + 1;
                        while i <= node.obs.last_index {
                            if let Some((_, _, true)) = Self::log_at(node, i) {
                                cnt += 1;
                            }
                            i += 1;
                        }
                        if cnt >= 2 {
                            self.ghost.stale_conf_elections.insert(c.post.term);
                            self.bump("leader_elected_two_changes_behind_its_log");
                        }
                    }
                    if self.nodes[&n].reloaded_lower_commit && self.s3_precondition(n) {
                        self.ghost.tainted_terms.insert(c.post.term);
                        self.ghost.tainted_nodes.insert(n);
                    }
                }
            }
        }

        // ---------------- log shadow diff: C05 (all three), feeds REG
        let r = self.check_log_diff(c);
        self.gate(r)?;

        // ---------------- C04 (before C01 so that an unjustified commit is attributed to the commit rule)
        let r = self.check_commit_rule(c);
        self.gate(r)?;

        // ---------------- C01.commit_agreement (a): commit index advance
        if c.post.commit > c.pre.commit || is_new {
            let r = self.report_commit(n, c.pre.commit, c.post.commit, is_new);
            self.gate(r)?;
        }
        {
            let node = self.nodes.get_mut(&n).unwrap();
            if c.post.commit > node.max_commit_ever {
                node.max_commit_ever = c.post.commit;
            }
        }
        if c.post.commit > self.ghost.max_commit_any {
            self.ghost.max_commit_any = c.post.commit;
        }

        // ---------------- C03.leader_has_committed on election
        if c.post.role == StateRole::Leader && (c.pre.role != StateRole::Leader || c.pre.term != c.post.term || is_new) {
            let r = self.check_leader_complete(n, self.ghost.base + 1);
            self.gate(r)?;
        }

        // ---------------- step-specific
        if let CallKind::Step(m) = c.kind {
            let r = self.check_step(c, m);
        self.gate(r)?;
        }

        // ---------------- C14.pointers
        let r = self.check_pointers(c);
        self.gate(r)?;

        // ---------------- later-phase monitors
        let r = self.check_membership_call(c);
        self.gate(r)?;
        let r = self.check_flow(c);
        self.gate(r)?;
        let r = self.check_transfer(c);
        self.gate(r)?;
        let r = self.check_quorum_math(c);
        self.gate(r)?;
        let r = self.check_snapshot_call(c);
        self.gate(r)?;
        let r = self.check_prevote_terms(c);
        self.gate(r)?;
        let r = self.check_lockstep_invariant(c);
        self.gate(r)?;
        Ok(())
    }

    /// S3 history precondition: the node holds >= 2 globally committed membership entries
    /// beyond its applied index after a restart that reloaded a lower commit index.
    fn s3_precondition(&self, n: NodeId) -> bool {
        let node = &self.nodes[&n];
        let mut cnt = 0;
        let mut i = node.obs.applied + 1;
        while i <= self.ghost.cl_max() {
            if let Some(e) = self.ghost.cl_get(i) {
                if e.is_conf {
                    if let Some((t, _, _)) = Self::log_at(node, i) {
                        if t == e.term {
                            cnt += 1;
                        }
                    }
                }
            }
            i += 1;
        }
        cnt >= 2
    }

    fn check_log_diff(&mut self, c: &CallCtx) -> VResult<()> {
        let n = c.n;
        let node = &self.nodes[&n];
        let new_u = &node.unst;
        let old_u = c.pre_unst;
        if matches!(c.kind, CallKind::New) {
            // register the whole loaded log
            let first = node.disk.model.first_index();
            let last = node.disk.model.last_index();
            let mut regs = Vec::new();
            for i in first..=last {
                let e = node.disk.model.entry(i).unwrap();
                let prev = node.disk.model.term(i - 1).unwrap_or(u64::MAX);
                regs.push((i, e.term, entry_digest(e), prev));
            }
            for (i, t, d, p) in regs {
                self.reg_check(n, i, t, d, p)?;
            }
            return Ok(());
        }
        // fast path: unstable unchanged
        if old_u.offset == new_u.offset && old_u.ents == new_u.ents && c.pre.snap_index == c.post.snap_index {
            return Ok(());
        }
        let same_leader = c.pre.role == StateRole::Leader && c.post.role == StateRole::Leader && c.pre.term == c.post.term;
        let restored = c.post.snap_index != 0 && c.post.snap_index != c.pre.snap_index;
        *self.stats.entry("chk.C05.committed_prefix_immutable").or_insert(0) += 1;
        if same_leader {
            *self.stats.entry("chk.C05.leader_append_only").or_insert(0) += 1;
        }
        // logical log before the call: stable model below old offset, old unstable above.
        // Storage is never touched inside a library call, so the stable model is the same before/after.
        let old_last = c.pre.last_index;
        let new_last = c.post.last_index;
        let lo = old_u.offset.min(new_u.offset);
        let hi = old_last.max(new_last);
        let old_at = |i: u64| -> Option<(u64, u64)> {
            if c.pre.snap_index != 0 && i <= c.pre.snap_index {
                return None;
            }
            if i > old_last {
                return None;
            }
            if i >= old_u.offset {
                old_u.ents.get((i - old_u.offset) as usize).map(|e| (e.0, e.1))
            } else {
                node.disk.model.entry(i).map(|e| (e.term, entry_digest(e)))
            }
        };
        let new_at = |i: u64| -> Option<(u64, u64)> {
            if c.post.snap_index != 0 && i <= c.post.snap_index {
                return None;
            }
            if i > new_last {
                return None;
            }
            if i >= new_u.offset {
                new_u.ents.get((i - new_u.offset) as usize).map(|e| (e.0, e.1))
            } else {
                node.disk.model.entry(i).map(|e| (e.term, entry_digest(e)))
            }
        };
        let mut regs = Vec::new();
        let mut viol: Option<Violation> = None;
        for i in lo..=hi {
            let o = old_at(i);
            let nw = new_at(i);
            if o == nw {
                continue;
            }
            if let Some(_) = o {
                // an existing entry changed or disappeared
                let covered = restored && i <= c.post.snap_index;
                if i <= c.pre.commit && !covered {
                    let d = format!(
                        "node {n}: entry at index {i} (<= commit {}) changed from {:?} to {:?} in {}",
                        c.pre.commit, o, nw, kind_name(c.kind)
                    );
                    viol = Some(self.violation("C05", "C05.committed_prefix_immutable", n, d, "committed_entry_changed".into()));
                    break;
                }
                if same_leader {
                    let d = format!(
                        "leader {n} of term {} rewrote/removed its own entry at index {i}: {:?} -> {:?} in {}",
                        c.post.term, o, nw, kind_name(c.kind)
                    );
                    viol = Some(self.violation("C05", "C05.leader_append_only", n, d, "leader_rewrote".into()));
                    break;
                }
            }
            if let Some((t, dg)) = nw {
                let prev = if i > 0 { Self::term_at(node, i - 1).unwrap_or(u64::MAX) } else { 0 };
                regs.push((i, t, dg, prev));
            }
        }
        if let Some(v) = viol {
            return Err(v);
        }
        // a covering snapshot must agree with the committed log
        if restored {
            if let Some(t) = self.ghost.cl_term(c.post.snap_index) {
                if t != c.post.snap_term {
                    let d = format!(
                        "node {n} accepted a snapshot at index {} with term {} but the committed entry there has term {}",
                        c.post.snap_index, c.post.snap_term, t
                    );
                    return Err(self.violation("C01", "C01.commit_agreement", n, d, "snapshot_term_mismatch".into()));
                }
            }
        }
        for (i, t, d, p) in regs {
            self.reg_check(n, i, t, d, p)?;
        }
        Ok(())
    }

    /// REG must stay a function: (index, term) -> (digest, term of index-1).
    fn reg_check(&mut self, n: NodeId, i: u64, term: u64, digest: u64, prev: u64) -> VResult<()> {
        *self.stats.entry("chk.C05.log_matching").or_insert(0) += 1;
        match self.ghost.reg.get_mut(&(i, term)) {
            None => {
                self.ghost.reg.insert((i, term), (digest, prev));
            }
            Some((d0, p0)) => {
                if *d0 != digest {
                    let d = format!("node {n} holds a different entry at (index {i}, term {term}) than another log did");
                    return Err(self.violation("C05", "C05.log_matching", n, d, "same_index_term_different_entry".into()));
                }
                if *p0 == u64::MAX {
                    *p0 = prev;
                } else if prev != u64::MAX && *p0 != prev {
                    let d = format!(
                        "entry (index {i}, term {term}) follows term {} on node {n} but followed term {} in another log",
                        prev, *p0
                    );
                    return Err(self.violation("C05", "C05.log_matching", n, d, "same_entry_different_prefix".into()));
                }
            }
        }
        Ok(())
    }

    fn check_commit_rule(&mut self, c: &CallCtx) -> VResult<()> {
        let n = c.n;
        if matches!(c.kind, CallKind::New) {
            return Ok(());
        }
        // a leader counts a voter only for what that voter acknowledged to it in this term, and itself
        // only for what has been reported persisted
        if c.post.role == StateRole::Leader {
            for p in &c.post.prs {
                *self.stats.entry("chk.C04.leader_counts_only_acknowledged").or_insert(0) += 1;
                let allowed = if p.id == n { c.post.persisted } else { self.ghost.acked_in_term.get(&(p.id, c.post.term)).cloned().unwrap_or(0) };
                if p.matched > allowed {
                    let d = format!(
                        "leader {n} of term {} counts {} as holding index {} but {} (call {})",
                        c.post.term, p.id, p.matched,
                        if p.id == n { format!("only {} has been reported persisted locally", allowed) } else { format!("it acknowledged only up to {} in this term", allowed) },
                        kind_name(c.kind)
                    );
                    return Err(self.violation("C04", "C04.leader_commit_quorum_durable", n, d, "matched_beyond_acknowledged".into()));
                }
            }
        }
        let was_or_is_leader = c.pre.role == StateRole::Leader || c.post.role == StateRole::Leader;
        if c.post.commit > c.pre.commit {
            if c.post.role == StateRole::Leader && c.pre.role == StateRole::Leader && c.pre.term == c.post.term {
                *self.stats.entry("chk.C04.leader_commit_quorum_durable").or_insert(0) += 1;
                let cp = c.post.commit;
                let t = c.post.term;
                let node = &self.nodes[&n];
                let lt = Self::term_at(node, cp);
                if lt != Some(t) {
                    let d = format!("leader {n} of term {t} advanced commit to {cp} whose entry has term {lt:?}");
                    return Err(self.violation("C04", "C04.leader_commit_quorum_durable", n, d, "commit_foreign_term".into()));
                }
                for (name, set) in [("incoming", &c.post.conf.voters), ("outgoing", &c.post.conf.outgoing)] {
                    if set.is_empty() {
                        continue;
                    }
                    let have = set.iter().filter(|v| self.nodes.get(v).map(|x| x.disk.durable.covers(cp, t)).unwrap_or(false)).count();
                    if have < set.len() / 2 + 1 {
                        let d = format!(
                            "leader {n} of term {t} advanced commit {} -> {cp} but only {have} of the {} {name} voters {:?} hold ({cp}, term {t}) durably (call {})",
                            c.pre.commit, set.len(), set, kind_name(c.kind)
                        );
                        let sig = format!("commit_without_durable_quorum:{}", if set.len() == 1 { "single" } else { "multi" });
                        return Err(self.violation("C04", "C04.leader_commit_quorum_durable", n, d, sig));
                    }
                }
            }
            if !was_or_is_leader {
                *self.stats.entry("chk.C04.follower_commit_bounded").or_insert(0) += 1;
                if c.post.commit > self.ghost.max_leader_commit {
                    let d = format!(
                        "non-leader {n} moved its commit index to {} but no leader has committed beyond {} (call {})",
                        c.post.commit, self.ghost.max_leader_commit, kind_name(c.kind)
                    );
                    return Err(self.violation("C04", "C04.follower_commit_bounded", n, d, "follower_commit_beyond_leader".into()));
                }
            }
        }
        if was_or_is_leader && c.post.commit > self.ghost.max_leader_commit {
            self.ghost.max_leader_commit = c.post.commit;
        }
        Ok(())
    }

    /// Node n reports indexes (from, to] as committed: compare with / extend CL.
    fn report_commit(&mut self, n: NodeId, from: u64, to: u64, is_new: bool) -> VResult<()> {
        let (lo, reporter_term) = {
            let node = &self.nodes[&n];
            let mut lo = from + 1;
            if is_new {
                lo = node.disk.model.first_index();
            }
            (lo.max(self.ghost.base + 1), node.obs.term)
        };
        for i in lo..=to {
            *self.stats.entry("chk.C01.commit_agreement").or_insert(0) += 1;
            let node = &self.nodes[&n];
            let mine = Self::log_at(node, i);
            let (t, dg, is_conf) = match mine {
                Some(x) => x,
                None => {
                    // under a pending snapshot or compacted: only the boundary term is checkable
                    if let (Some(t), Some(ct)) = (Self::term_at(node, i), self.ghost.cl_term(i)) {
                        if t != ct {
                            let d = format!("node {n} reports index {i} committed with term {t}; committed entry has term {ct}");
                            return Err(self.violation("C01", "C01.commit_agreement", n, d, "commit_term_mismatch".into()));
                        }
                    }
                    continue;
                }
            };
            if i == self.ghost.cl_max() + 1 {
                let step = self.step_no;
                self.ghost.cl_push(ClEnt { term: t, digest: dg, is_conf, commit_term: reporter_term, reporter: n, step });
                self.bump("commits");
                self.on_cl_extended(i)?;
            } else if let Some(e) = self.ghost.cl_get(i) {
                if e.term != t || e.digest != dg {
                    let d = format!(
                        "node {n} reports a different entry committed at index {i}: (term {t}, digest {dg:x}) vs first report by node {} (term {}, digest {:x})",
                        e.reporter, e.term, e.digest
                    );
                    let sig = "different_entry_committed".to_string();
                    return Err(self.violation("C01", "C01.commit_agreement", n, d, sig));
                }
            } else {
                let d = format!("node {n} reports index {i} committed but nobody committed index {}", self.ghost.cl_max() + 1);
                return Err(self.violation("C01", "C01.commit_agreement", n, d, "commit_gap".into()));
            }
        }
        Ok(())
    }

    /// CL grew by index i: every node currently leading a later term must hold it (C03 a);
    /// fold the reference configuration.
    fn on_cl_extended(&mut self, i: u64) -> VResult<()> {
        let e = self.ghost.cl_get(i).unwrap().clone();
        let leaders: Vec<NodeId> = self
            .nodes
            .values()
            .filter(|x| x.running() && x.obs.role == StateRole::Leader && x.obs.term > e.commit_term)
            .map(|x| x.id)
            .collect();
        for l in leaders {
            self.check_leader_complete(l, i)?;
        }
        self.fold_ref_conf(i)?;
        Ok(())
    }

    /// C03.leader_has_committed: leader n holds every CL[i] (i >= from) committed under an earlier term.
    pub fn check_leader_complete_pub(&mut self, n: NodeId) -> VResult<()> {
        let from = self.ghost.base + 1;
        self.check_leader_complete(n, from)
    }

    fn check_leader_complete(&mut self, n: NodeId, from: u64) -> VResult<()> {
        let node = &self.nodes[&n];
        let t = node.obs.term;
        let first = node.obs.first_index;
        for i in from.max(first.saturating_sub(1)).max(self.ghost.base + 1)..=self.ghost.cl_max() {
            let e = self.ghost.cl_get(i).unwrap();
            if e.commit_term >= t {
                continue;
            }
            *self.stats.entry("chk.C03.leader_has_committed").or_insert(0) += 1;
            let ok = match Self::log_at(node, i) {
                Some((lt, dg, _)) => lt == e.term && dg == e.digest,
                None => match Self::term_at(node, i) {
                    Some(bt) => bt == e.term,
                    None => i < first, // compacted below the boundary: nothing to compare
                },
            };
            if !ok {
                let d = format!(
                    "leader {n} of term {t} does not hold the entry committed at index {i} (term {}, first reported by node {} under term {}); its log there: {:?}, last index {}",
                    e.term, e.reporter, e.commit_term, Self::log_at(node, i).map(|x| (x.0, x.1)), node.obs.last_index
                );
                return Err(self.violation("C03", "C03.leader_has_committed", n, d, "leader_missing_committed".into()));
            }
        }
        Ok(())
    }

    fn check_step(&mut self, c: &CallCtx, m: &Message) -> VResult<()> {
        let n = c.n;
        let t = m.get_msg_type();
        if is_vote_req(t) {
            // ---------------- C16.prevote_request_is_readonly
            if t == MessageType::MsgRequestPreVote {
                *self.stats.entry("chk.C16.prevote_request_is_readonly").or_insert(0) += 1;
                if c.pre.term != c.post.term || c.pre.vote != c.post.vote {
                    let d = format!(
                        "node {n}: pre-vote request from {} (term {}) changed (term, vote) from ({}, {}) to ({}, {})",
                        m.from, m.term, c.pre.term, c.pre.vote, c.post.term, c.post.vote
                    );
                    return Err(self.violation("C16", "C16.prevote_request_is_readonly", n, d, "prevote_changed_state".into()));
                }
            }
            // ---------------- C03.grant_up_to_date
            let resp_t = raft::vote_resp_msg_type(t);
            for r in c.emitted {
                if r.get_msg_type() == resp_t && r.to == m.from && !r.reject {
                    *self.stats.entry("chk.C03.grant_up_to_date").or_insert(0) += 1;
                    let cand = (m.log_term, m.index);
                    let mine = (c.pre.last_term, c.pre.last_index);
                    if cand < mine {
                        let d = format!(
                            "node {n} granted {:?} to {} whose last (term, index) {:?} is behind its own {:?}",
                            t, m.from, cand, mine
                        );
                        return Err(self.violation("C03", "C03.grant_up_to_date", n, d, "grant_to_stale_candidate".into()));
                    }
                }
            }
        }
        Ok(())
    }

    fn check_pointers(&mut self, c: &CallCtx) -> VResult<()> {
        let n = c.n;
        let p = c.post;
        *self.stats.entry("chk.C14.pointers").or_insert(0) += 1;
        if p.commit > p.last_index {
            let d = format!("node {n}: committed {} > last index {} after {}", p.commit, p.last_index, kind_name(c.kind));
            return Err(self.violation("C14", "C14.pointers", n, d, "commit_gt_last".into()));
        }
        if p.applied > p.commit {
            // documented exception: right after a restart with max_apply_unpersisted_log_limit > 0
            let node = &self.nodes[&n];
            let exempt = node.cfg.max_apply_unpersisted_log_limit > 0 && node.incarnation > 0;
            if !exempt {
                let d = format!("node {n}: applied {} > committed {} after {}", p.applied, p.commit, kind_name(c.kind));
                return Err(self.violation("C14", "C14.pointers", n, d, "applied_gt_commit".into()));
            }
        }
        if p.persisted >= p.unst_offset && p.snap_index == 0 {
            let d = format!("node {n}: persisted {} >= unstable offset {} after {}", p.persisted, p.unst_offset, kind_name(c.kind));
            return Err(self.violation("C14", "C14.pointers", n, d, "persisted_ge_offset".into()));
        }
        {
            let node = &self.nodes[&n];
            if p.persisted > node.disk.model.last_index() {
                let d = format!("node {n}: persisted index {} is beyond the last index {} of its stable storage after {}", p.persisted, node.disk.model.last_index(), kind_name(c.kind));
                return Err(self.violation("C14", "C14.pointers", n, d, "persisted_beyond_storage".into()));
            }
        }
        // "the persisted index never exceeds what stable storage holds with matching terms": where both the
        // logical log (pending snapshot included) and the storage know the term at `persisted`, they agree
        {
            let node = &self.nodes[&n];
            if let (Some(lt), Ok(st)) = (Self::term_at(node, p.persisted), node.disk.model.term(p.persisted)) {
                *self.stats.entry("chk.C14.persisted_matches_storage").or_insert(0) += 1;
                if lt != st {
                    let d = format!(
                        "node {n}: persisted index {} has term {lt} in the logical log (pending snapshot at {}) but stable storage holds term {st} there, after {}",
                        p.persisted, p.snap_index, kind_name(c.kind)
                    );
                    return Err(self.violation("C14", "C14.pointers", n, d, "persisted_term_mismatch".into()));
                }
            }
        }
        Ok(())
    }

    // ====================================================================================
    // message release: C06
    // ====================================================================================

    pub fn check_release(&mut self, n: NodeId, m: &Message, early: bool) -> VResult<()> {
        let t = m.get_msg_type();
        let node = &self.nodes[&n];
        // ---- ghost: one vote per term, ever (fed by what is actually told to others)
        let mut self_vote_term = None;
        let mut grant: Option<(u64, NodeId)> = None;
        if t == MessageType::MsgRequestVote || leader_type(t) {
            self_vote_term = Some(m.term);
            grant = Some((m.term, n));
        } else if t == MessageType::MsgRequestVoteResponse && !m.reject {
            grant = Some((m.term, m.to));
        }
        if let Some((term, cand)) = grant {
            *self.stats.entry("chk.C06.one_vote_per_term_ever").or_insert(0) += 1;
            match self.ghost.granted.get(&(n, term)) {
                Some(c0) if *c0 != cand => {
                    let d = format!(
                        "node {n} told others it voted for {} in term {term} and now releases {:?} implying a vote for {}",
                        c0, t, cand
                    );
                    return Err(self.violation("C06", "C06.one_vote_per_term_ever", n, d, "two_votes_one_term".into()));
                }
                Some(_) => {}
                None => {
                    self.ghost.granted.insert((n, term), cand);
                }
            }
        }
        let promise_term = match t {
            MessageType::MsgRequestPreVote | MessageType::MsgRequestPreVoteResponse => 0,
            MessageType::MsgPropose | MessageType::MsgReadIndex | MessageType::MsgTransferLeader => 0,
            _ => m.term,
        };
        if promise_term > 0 {
            let e = self.ghost.max_term_released.entry(n).or_insert(0);
            if promise_term > *e {
                *e = promise_term;
            }
        }
        if t == MessageType::MsgAppendResponse && !m.reject {
            let a = self.ghost.acked_in_term.entry((n, m.term)).or_insert(0);
            if m.index > *a {
                *a = m.index;
            }
            let e = self.ghost.acked.entry(n).or_insert((0, 0));
            if m.term > e.0 {
                *e = (m.term, m.index);
            } else if m.term == e.0 && m.index > e.1 {
                e.1 = m.index;
            }
        }
        if !early {
            return Ok(());
        }
        // ---- C06.release_before_durable: an early message must carry no promise that is not durable yet
        *self.stats.entry("chk.C06.release_before_durable").or_insert(0) += 1;
        let d = &node.disk.durable;
        let single = node.obs.conf.voters.len() == 1 && node.obs.conf.outgoing.is_empty();
        let shape = if single { "single_voter" } else { "multi_voter" };
        let fail = |what: String| -> Violation {
            Violation {
                prop: "C06",
                check: "C06.release_before_durable",
                node: n,
                step: self.step_no,
                detail: format!(
                    "node {n} released {:?} to {} (term {}) before it was covered by durable state (durable hs: term {} vote {} commit {}, durable last index {}): {}",
                    t, m.to, m.term, d.hs.term, d.hs.vote, d.hs.commit, d.last_index(), what
                ),
                sig: format!("early_release:{:?}:{}", t, shape),
            }
        };
        if promise_term > 0 && d.hs.term < promise_term {
            return Err(fail(format!("durable term {} < message term {}", d.hs.term, promise_term)));
        }
        if let Some(st) = self_vote_term {
            if d.hs.term == st && d.hs.vote != n {
                return Err(fail(format!("durable vote in term {st} is {} not self", d.hs.vote)));
            }
        }
        match t {
            MessageType::MsgRequestVote => {
                if !d.covers(m.index, m.log_term) {
                    return Err(fail(format!("last entry ({}, term {}) of the vote request is not durable", m.index, m.log_term)));
                }
            }
            MessageType::MsgRequestVoteResponse if !m.reject => {
                if d.hs.term == m.term && d.hs.vote != m.to {
                    return Err(fail(format!("granted vote for {} in term {} is not durable (durable vote {})", m.to, m.term, d.hs.vote)));
                }
            }
            MessageType::MsgAppendResponse if !m.reject => {
                let lt = Self::term_at(node, m.index);
                if let Some(lt) = lt {
                    if !d.covers(m.index, lt) {
                        return Err(fail(format!("acknowledged index {} (term {}) is not durable", m.index, lt)));
                    }
                }
            }
            _ => {}
        }
        Ok(())
    }

    pub fn check_restart(&mut self, n: NodeId) -> VResult<()> {
        let node = &self.nodes[&n];
        let d = &node.disk.durable;
        let o = &node.obs;
        *self.stats.entry("chk.C06.restart_not_behind").or_insert(0) += 1;
        if o.term != d.hs.term || o.vote != d.hs.vote {
            let det = format!("node {n} restarted with (term {}, vote {}) but its stable storage holds (term {}, vote {})", o.term, o.vote, d.hs.term, d.hs.vote);
            return Err(self.violation("C06", "C06.restart_not_behind", n, det, "restart_hs_mismatch".into()));
        }
        if o.last_index != d.last_index() {
            let det = format!("node {n} restarted with last index {} but its stable storage ends at {}", o.last_index, d.last_index());
            return Err(self.violation("C06", "C06.restart_not_behind", n, det, "restart_log_mismatch".into()));
        }
        // the loaded log is the durable log, entry by entry
        if let Some(raw) = node.raw.as_ref() {
            for e in &d.entries {
                let got = raw.raft.raft_log.term(e.index).ok();
                if got != Some(e.term) {
                    let det = format!("node {n} restarted with term {:?} at index {} but its stable storage holds term {}", got, e.index, e.term);
                    return Err(self.violation("C06", "C06.restart_not_behind", n, det, "restart_log_mismatch".into()));
                }
            }
        }
        if let Some(mt) = self.ghost.max_term_released.get(&n) {
            if o.term < *mt {
                let det = format!("node {n} restarted at term {} although it had released messages of term {}", o.term, mt);
                return Err(self.violation("C06", "C06.restart_not_behind", n, det, "restart_behind_released_term".into()));
            }
        }
        if let Some(c) = self.ghost.granted.get(&(n, o.term)) {
            if o.vote != *c {
                let det = format!("node {n} restarted in term {} with vote {} although it told others it voted for {}", o.term, o.vote, c);
                return Err(self.violation("C06", "C06.restart_not_behind", n, det, "restart_forgot_vote".into()));
            }
        }
        let lower = o.commit < node.max_commit_ever;
        let lag = o.applied < o.commit;
        if lower {
            self.bump("restart_with_lower_commit");
        }
        if lag {
            self.bump("restart_with_applied_lt_commit");
        }
        Ok(())
    }

    // ====================================================================================
    // Ready hand-off: C07 (+ C01 b)
    // ====================================================================================

    pub fn check_ready(&mut self, n: NodeId, has_ready: bool, rd: &Ready) -> VResult<()> {
        let empty = rd.ss().is_none()
            && rd.hs().is_none()
            && rd.read_states().is_empty()
            && rd.entries().is_empty()
            && rd.snapshot().is_empty()
            && rd.messages().is_empty()
            && rd.persisted_messages().is_empty()
            && rd.committed_entries().is_empty();
        *self.stats.entry("chk.C07.has_ready_iff").or_insert(0) += 1;
        if has_ready == empty {
            let d = format!("node {n}: has_ready() = {has_ready} but ready() returned an {} Ready", if empty { "empty" } else { "non-empty" });
            return Err(self.violation("C07", "C07.has_ready_iff", n, d, format!("has_ready_{has_ready}_empty_{empty}")));
        }
        let node = &self.nodes[&n];
        let cur_hs = node.raw.as_ref().unwrap().raft.hard_state();
        // ---- persist_handoff: hs
        *self.stats.entry("chk.C07.persist_handoff").or_insert(0) += 1;
        let differs = cur_hs != node.hs_handed;
        match rd.hs() {
            Some(hs) => {
                if !differs || *hs != cur_hs {
                    let d = format!("node {n}: Ready.hs() = {:?}, current {:?}, last handed out {:?}", hs, cur_hs, node.hs_handed);
                    return Err(self.violation("C07", "C07.persist_handoff", n, d, "hs_wrong".into()));
                }
            }
            None => {
                if differs {
                    let d = format!("node {n}: hard state changed to {:?} (last handed out {:?}) but Ready.hs() is None", cur_hs, node.hs_handed);
                    return Err(self.violation("C07", "C07.persist_handoff", n, d, "hs_missing".into()));
                }
            }
        }
        // ---- persist_handoff: entries == unstable suffix (which ready() leaves in place)
        let ue = &node.unst.ents;
        if rd.entries().len() != ue.len()
            || rd.entries().iter().zip(ue.iter()).any(|(e, s)| e.term != s.0 || entry_digest(e) != s.1)
            || rd.entries().first().map(|e| e.index != node.unst.offset).unwrap_or(false)
        {
            let d = format!("node {n}: Ready.entries() ({} entries from {:?}) is not the unstable suffix ({} entries from {})",
                rd.entries().len(), rd.entries().first().map(|e| e.index), ue.len(), node.unst.offset);
            return Err(self.violation("C07", "C07.persist_handoff", n, d, "entries_not_unstable_suffix".into()));
        }
        // ---- "entries to persist are handed out exactly once": ghost of what earlier Readies of this incarnation
        // handed out (independent of the library's own unstable bookkeeping)
        *self.stats.entry("chk.C07.persist_once").or_insert(0) += 1;
        for e in rd.entries() {
            if node.persist_handed.get(&e.index) == Some(&e.term) {
                let d = format!("node {n}: entry ({}, term {}) is handed out for persistence a second time (the Ready that carried it was advanced)", e.index, e.term);
                return Err(self.violation("C07", "C07.persist_handoff", n, d, "entries_handed_out_twice".into()));
            }
        }
        // ---- snapshot is the pending one
        let snap_idx = if rd.snapshot().is_empty() { 0 } else { rd.snapshot().get_metadata().index };
        if snap_idx != node.obs.snap_index {
            let d = format!("node {n}: Ready.snapshot() index {snap_idx} but pending snapshot index {}", node.obs.snap_index);
            return Err(self.violation("C07", "C07.persist_handoff", n, d, "snapshot_not_pending".into()));
        }
        // ---- must_sync
        *self.stats.entry("chk.C07.must_sync").or_insert(0) += 1;
        let want_sync = !rd.entries().is_empty()
            || snap_idx != 0
            || cur_hs.term != node.hs_handed.term
            || cur_hs.vote != node.hs_handed.vote;
        if rd.must_sync() != want_sync {
            let d = format!("node {n}: must_sync() = {} but entries {} snapshot {} term/vote change {}", rd.must_sync(),
                rd.entries().len(), snap_idx, cur_hs.term != node.hs_handed.term || cur_hs.vote != node.hs_handed.vote);
            return Err(self.violation("C07", "C07.must_sync", n, d, format!("must_sync_{}", rd.must_sync())));
        }
        // ---- handoff_exact
        let mut cursor = node.handoff;
        if snap_idx != 0 {
            if snap_idx < cursor {
                let d = format!("node {n}: Ready carries snapshot {snap_idx} behind the hand-off cursor {cursor}");
                return Err(self.violation("C07", "C07.handoff_exact", n, d, "snapshot_behind_cursor".into()));
            }
            if !rd.committed_entries().is_empty() {
                let d = format!("node {n}: Ready carries a snapshot and committed entries");
                return Err(self.violation("C07", "C07.handoff_exact", n, d, "snapshot_with_entries".into()));
            }
            cursor = snap_idx;
        }
        let limit = node.obs.max_apply_unpersisted;
        for e in rd.committed_entries() {
            self.check_handoff_entry(n, e, &mut cursor, limit)?;
        }
        self.uncommitted_handed_out(n, cursor);
        let node = self.nodes.get_mut(&n).unwrap();
        node.handoff = cursor;
        if let Some(hs) = rd.hs() {
            node.hs_handed = hs.clone();
            node.commit_handed = hs.commit;
        }
        if snap_idx != 0 {
            node.persist_handed.clear();
        }
        if let Some(first) = rd.entries().first() {
            let _ = node.persist_handed.split_off(&first.index);
            for e in rd.entries() {
                node.persist_handed.insert(e.index, e.term);
            }
        }
        Ok(())
    }

    fn check_handoff_entry(&self, n: NodeId, e: &Entry, cursor: &mut u64, limit: u64) -> VResult<()> {
        let node = &self.nodes[&n];
        let i = e.index;
        if let Some(c) = self.stats.get("chk.C07.handoff_exact") {
            let _ = c;
        }
        if i != *cursor + 1 {
            let d = format!("node {n}: committed entry {i} handed out right after {}", *cursor);
            return Err(self.violation("C07", "C07.handoff_exact", n, d, if i <= *cursor { "handoff_duplicate".into() } else { "handoff_gap".into() }));
        }
        if i > node.obs.commit {
            let d = format!("node {n}: entry {i} handed out for apply beyond commit index {}", node.obs.commit);
            return Err(self.violation("C07", "C07.handoff_exact", n, d, "handoff_beyond_commit".into()));
        }
        let dg = entry_digest(e);
        match Self::log_at(node, i) {
            Some((t, d2, _)) if t == e.term && d2 == dg => {}
            other => {
                let d = format!("node {n}: entry handed out at {i} (term {}, digest {dg:x}) differs from its own log {:?}", e.term, other);
                return Err(self.violation("C07", "C07.handoff_exact", n, d, "handoff_altered".into()));
            }
        }
        if let Some(c) = self.ghost.cl_get(i) {
            if c.term != e.term || c.digest != dg {
                let d = format!("node {n} hands entry (index {i}, term {}) to the application; the entry committed there is (term {}) first reported by node {}", e.term, c.term, c.reporter);
                return Err(self.violation("C01", "C01.commit_agreement", n, d, "different_entry_applied".into()));
            }
        }
        // persisted-only
        if limit == 0 {
            if !node.disk.durable.covers(i, e.term) {
                let d = format!("node {n}: entry ({i}, term {}) handed out for apply is not in its stable storage (durable last {}, persisted {})",
                    e.term, node.disk.durable.last_index(), node.obs.persisted);
                return Err(self.violation("C07", "C07.handoff_persisted_only", n, d, "handoff_unpersisted".into()));
            }
        } else if i > node.obs.persisted + limit {
            let d = format!("node {n}: entry {i} handed out beyond persisted {} + limit {limit}", node.obs.persisted);
            return Err(self.violation("C07", "C07.handoff_persisted_only", n, d, "handoff_beyond_limit".into()));
        }
        *cursor = i;
        Ok(())
    }

    pub fn check_light_ready(&mut self, n: NodeId, light: &LightReady) -> VResult<()> {
        let node = &self.nodes[&n];
        let commit = node.obs.commit;
        *self.stats.entry("chk.C07.light_commit_index").or_insert(0) += 1;
        let grew = commit > node.commit_handed;
        match light.commit_index() {
            Some(c) => {
                if !grew || c != commit {
                    let d = format!("node {n}: LightReady.commit_index() = {c}, commit {commit}, last handed out {}", node.commit_handed);
                    return Err(self.violation("C07", "C07.persist_handoff", n, d, "light_commit_wrong".into()));
                }
            }
            None => {
                if grew {
                    let d = format!("node {n}: commit grew to {commit} (last handed out {}) but LightReady.commit_index() is None", node.commit_handed);
                    return Err(self.violation("C07", "C07.persist_handoff", n, d, "light_commit_missing".into()));
                }
            }
        }
        let mut cursor = node.handoff;
        let limit = node.obs.max_apply_unpersisted;
        for e in light.committed_entries() {
            self.check_handoff_entry(n, e, &mut cursor, limit)?;
        }
        self.uncommitted_handed_out(n, cursor);
        let node = self.nodes.get_mut(&n).unwrap();
        node.handoff = cursor;
        if let Some(c) = light.commit_index() {
            node.commit_handed = c;
            node.hs_handed.commit = c;
        }
        // after advance none of the handed-out entries may still be unstable: checked in check_flow(Advance*)
        Ok(())
    }

    /// After the application applied entry e: its state hash must equal the ghost chain (C01 b).
    pub fn check_applied(&mut self, n: NodeId, e: &Entry) -> VResult<()> {
        *self.stats.entry("chk.C01.applied_state").or_insert(0) += 1;
        let node = &self.nodes[&n];
        if let Some(h) = self.ghost.h_at(e.index) {
            if h != node.sm.hash {
                let d = format!("node {n}: application state after applying index {} differs from the committed log prefix", e.index);
                return Err(self.violation("C01", "C01.commit_agreement", n, d, "applied_state_diverged".into()));
            }
        }
        self.check_conf_after_apply(n, e)
    }

    pub fn check_snapshot_installed(&mut self, n: NodeId, snap: &Snapshot) -> VResult<()> {
        let idx = snap.get_metadata().index;
        let term = snap.get_metadata().term;
        *self.stats.entry("chk.C15.install_effect").or_insert(0) += 1;
        if let Some(t) = self.ghost.cl_term(idx) {
            if t != term {
                let d = format!("node {n} installs a snapshot ({idx}, term {term}); the committed entry at {idx} has term {t}");
                return Err(self.violation("C01", "C01.commit_agreement", n, d, "snapshot_term_mismatch".into()));
            }
        }
        let st = crate::disk::AppState::from_snapshot(snap);
        if let Some(h) = self.ghost.h_at(idx) {
            if h != st.hash {
                let d = format!("node {n} installs a snapshot at {idx} whose state differs from the committed log prefix");
                return Err(self.violation("C01", "C01.commit_agreement", n, d, "snapshot_state_diverged".into()));
            }
        } else {
            let d = format!("node {n} installs a snapshot at {idx} beyond every committed index ({})", self.ghost.cl_max());
            return Err(self.violation("C01", "C01.commit_agreement", n, d, "snapshot_beyond_commit".into()));
        }
        self.check_snapshot_effect(n, snap)
    }

    // ====================================================================================
    // reads: C08
    // ====================================================================================

    pub fn ghost_note_read(&mut self, n: NodeId, id: u64) {
        let bound = self.ghost.max_commit_any;
        let step = self.step_no;
        self.ghost.reads.entry((n, id)).or_insert(ReadReq { bound, step, answered: 0 });
    }

    pub fn check_read_state(&mut self, n: NodeId, rs: &ReadState) -> VResult<()> {
        let lease = {
            let node = &self.nodes[&n];
            node.cfg.lease_read && node.cfg.check_quorum
        };
        let (issuer, id) = match parse_read_ctx(&rs.request_ctx) {
            Some(x) => x,
            None => {
                let d = format!("node {n}: read state with a context nobody issued: {:?}", rs.request_ctx);
                return Err(self.violation("C08", "C08.read_index_bound", n, d, "unknown_read_ctx".into()));
            }
        };
        self.bump("reads_answered");
        *self.stats.entry("chk.C08.read_index_bound").or_insert(0) += 1;
        if issuer != n {
            let d = format!("read request ({issuer}, {id}) was answered on node {n}");
            return Err(self.violation("C08", "C08.read_index_bound", n, d, "read_answered_elsewhere".into()));
        }
        let req = match self.ghost.reads.get_mut(&(issuer, id)) {
            Some(r) => r,
            None => {
                let d = format!("node {n}: read state for a request ({issuer}, {id}) that was never issued");
                return Err(self.violation("C08", "C08.read_index_bound", n, d, "unknown_read_ctx".into()));
            }
        };
        req.answered += 1;
        let bound = req.bound;
        // LeaseBased reads depend on bounded clock drift, which the simulator deliberately violates.
        let any_lease = lease || self.nodes.values().any(|x| x.cfg.lease_read && x.cfg.check_quorum);
        if any_lease {
            return Ok(());
        }
        if rs.index < bound {
            let d = format!(
                "read ({issuer}, {id}) issued when some node had committed {bound} was answered with index {} on node {n}",
                rs.index
            );
            // history precondition of a known finding: this node, as leader, was handed the same forwarded
            // read request twice (network duplicate), so acknowledgements of the first registration count for the second
            let sig = if self.ghost.dup_read_at.contains(&n) { "stale_read:duplicate_forwarded_request" } else { "stale_read" };
            return Err(self.violation("C08", "C08.read_index_bound", n, d, sig.into()));
        }
        Ok(())
    }

    // ====================================================================================
    // storage mutation: C19 differential + C14 logical log
    // ====================================================================================

    pub fn after_storage_op(&mut self, n: NodeId) -> VResult<()> {
        let probe = crate::prng::mix(self.step_no, n);
        let node = &self.nodes[&n];
        let diff = std::panic::catch_unwind(std::panic::AssertUnwindSafe(|| node.disk.differential(probe)))
            .unwrap_or_else(|_| Err(format!("query panicked: {}", take_last_panic().unwrap_or_default())));
        match diff {
            Ok(k) => {
                *self.stats.entry("chk.C19.differential").or_insert(0) += k;
            }
            Err(e) => {
                let d = format!("MemStorage of node {n} disagrees with the sequence model: {e}");
                let sig = e.split(|c: char| c.is_ascii_digit()).next().unwrap_or("").to_string();
                return Err(self.violation("C19", "C19.differential", n, d, format!("memstorage:{sig}")));
            }
        }
        let r = std::panic::catch_unwind(std::panic::AssertUnwindSafe(|| self.check_logical_log(n)));
        match r {
            Ok(x) => x,
            Err(_) => {
                let d = format!("node {n}: a RaftLog query panicked: {}", take_last_panic().unwrap_or_default());
                Err(self.violation("C14", "C14.logical_log", n, d, "raftlog:query_panicked".into()))
            }
        }
    }

    pub fn full_recheck(&mut self) -> VResult<()> {
        // pairwise log matching over complete logs (non-incremental)
        let ids = self.running_ids();
        for (ai, a) in ids.iter().enumerate() {
            for b in ids.iter().skip(ai + 1) {
                let na = &self.nodes[a];
                let nb = &self.nodes[b];
                let lo = na.obs.first_index.max(nb.obs.first_index);
                let hi = na.obs.last_index.min(nb.obs.last_index);
                if lo > hi {
                    continue;
                }
                // find the highest index with equal terms, then everything below must be equal
                let mut i = hi;
                let mut matched = false;
                loop {
                    let ea = Self::log_at(na, i);
                    let eb = Self::log_at(nb, i);
                    if let (Some(x), Some(y)) = (ea, eb) {
                        if matched && (x.0 != y.0 || x.1 != y.1) {
                            let d = format!("nodes {a} and {b} agree on (index, term) above index {i} but differ at {i}: {:?} vs {:?}", (x.0, x.1), (y.0, y.1));
                            return Err(self.violation("C05", "C05.log_matching", *a, d, "full_recheck_mismatch".into()));
                        }
                        if x.0 == y.0 {
                            if x.1 != y.1 {
                                let d = format!("nodes {a} and {b} hold different entries at (index {i}, term {})", x.0);
                                return Err(self.violation("C05", "C05.log_matching", *a, d, "same_index_term_different_entry".into()));
                            }
                            matched = true;
                        }
                    }
                    if i == lo {
                        break;
                    }
                    i -= 1;
                }
            }
        }
        // committed prefixes agree with CL
        for a in ids {
            let node = &self.nodes[&a];
            let lo = node.obs.first_index.max(self.ghost.base + 1);
            for i in lo..=node.obs.commit.min(self.ghost.cl_max()) {
                if let (Some((t, dg, _)), Some(c)) = (Self::log_at(node, i), self.ghost.cl_get(i)) {
                    if t != c.term || dg != c.digest {
                        let d = format!("node {a}: committed entry at {i} differs from the committed log (full re-check)");
                        return Err(self.violation("C01", "C01.commit_agreement", a, d, "different_entry_committed".into()));
                    }
                }
            }
        }
        Ok(())
    }

    // ====================================================================================
    // C20: local-only message types and strangers
    // ====================================================================================

    pub fn bogus(&mut self, n: NodeId, kind: u8, from: NodeId, term_delta: i8) -> VResult<()> {
        let (term, is_member) = match self.nodes.get(&n) {
            Some(x) if x.running() => (x.obs.term, x.obs.prs_keys.contains(&from)),
            _ => return Ok(()),
        };
        let t = msg_type_from_u8(kind);
        let local = raft::raw_node::is_local_msg(t);
        let response = matches!(
            t,
            MessageType::MsgAppendResponse
                | MessageType::MsgRequestVoteResponse
                | MessageType::MsgHeartbeatResponse
                | MessageType::MsgUnreachable
                | MessageType::MsgRequestPreVoteResponse
        );
        if !local && !(response && !is_member) {
            return Ok(()); // not a message the rule is about
        }
        let mut m = Message::default();
        m.set_msg_type(t);
        m.from = from;
        m.to = n;
        m.term = (term as i64 + term_delta as i64).max(0) as u64;
        m.index = self.nodes[&n].obs.last_index;
        let before = self.nodes[&n].obs.clone();
        let before_unst = self.nodes[&n].unst.clone();
        let mc = m.clone();
        self.bump("bogus_offered");
        let res = self.call(n, CallKind::Bogus(Box::new(mc)), move |raw| {
            Ok(match raw.step(m) {
                Ok(()) => "Ok".to_string(),
                Err(e) => format!("{e:?}"),
            })
        })?;
        let res = res.unwrap_or_default();
        *self.stats.entry("chk.C20.local_and_stranger_rejected").or_insert(0) += 1;
        let want = if local { "StepLocalMsg" } else { "StepPeerNotFound" };
        if res != want {
            let d = format!("node {n}: step({t:?} from {from}) returned {res}, expected Err({want})");
            return Err(self.violation("C20", "C20.local_and_stranger_rejected", n, d, format!("bogus_accepted:{t:?}")));
        }
        let after = &self.nodes[&n].obs;
        let same = before.term == after.term
            && before.vote == after.vote
            && before.role == after.role
            && before.leader_id == after.leader_id
            && before.commit == after.commit
            && before.last_index == after.last_index
            && before.msgs_len == after.msgs_len
            && before.election_elapsed == after.election_elapsed
            && before.read_states_len == after.read_states_len
            && before.prs == after.prs
            && before.conf == after.conf
            && before.transferee == after.transferee
            && before_unst.ents == self.nodes[&n].unst.ents;
        if !same {
            let d = format!("node {n}: rejected {t:?} from {from} changed observable state");
            return Err(self.violation("C20", "C20.local_and_stranger_rejected", n, d, format!("bogus_changed_state:{t:?}")));
        }
        Ok(())
    }
}

// re-exports used by the later-phase monitor file
pub use refmodel::disjoint_quorums;
pub type _Unused = (RefConf, RefVote, BTreeSet<u64>);
